"""C03 — enabling left-recursion support is transparent for ordinary grammars.

proof:           lean/PPProofs/Props/C03.lean (+ the growth-loop theorems of Props/C04.lean): without Forwards LR mode is
                 the plain parser; the growth loop on an expression that does not depend on the recursion entries returns
                 that expression's outcome; re-using retained memo entries of finished Forwards never changes an outcome,
                 for every retention capacity.
correspondence:  (a) the seed-growing model parseLR vs the real code under enable_left_recursion(None/1/2/4) and
                 (b) the uncached model vs the real LR mode, on grammars with Forwards but no left recursion (Forwards
                 shared between common-prefix alternatives, nested, grouped).
search (oracle): the statement executed on the real code: outcomes (as_list, as_dict, dump | exception type, location,
                 message) under every memo capacity == outcomes with memoization disabled, incl. named and grouped Forwards
                 and the leak witness of the 5ff7cdc fix.
"""
from __future__ import annotations

import json
import random

from .. import common, corr_parse, gen, gram

META = dict(
    text="Lean theorems: lr_no_forward_transparent (a grammar without assigned Forwards parses identically in LR mode, for "
         "every environment of in-growth entries, all inputs); lr_transparent_nonrec / lr_transparent_nonrec_fail (the "
         "growth loop of Forward.parseImpl, run on an expression that does not depend on the recursion entries, returns "
         "exactly that expression's outcome - for every expression outcome, with and without actions, any round budget "
         ">= 2); lr_memo_hits_transparent (C02's oracle theorem: re-using retained memo entries of finished Forwards never "
         "changes an outcome, for EVERY retention policy, hence every memo capacity incl. 1 and unbounded). PARTIAL: no "
         "single theorem parseLR = parse for all non-left-recursive grammars with Forwards; the leak clause (tokens "
         "extended in place by an enclosing And must not reach the memo) is a heap property decided by the real-code "
         "oracle; fatal exceptions inside Forward bodies in LR mode are the registered finding lr_stale_seed_after_fatal "
         "and are kept out of the generators.",
    note="Trusted: Lean kernel; axioms propext/Classical.choice/Quot.sound; the seed-growing model (PPModel/Mod/LeftRec.lean: "
         "in-growth memo entries as an environment, finished Forwards re-evaluated) and the parse model, both validated "
         "differentially on every run against the real LR mode with capacities None/1/2/4.",
    technique="Lean 4 proof (growth-loop invariants + cache-oracle refinement) over a transcribed model; differential "
              "correspondence in LR mode; LR-vs-none oracle on the real code",
    design="§5 C03",
)

THEOREMS = [
    "PP.Parse.lr_no_forward_transparent", "PP.Parse.lr_transparent_nonrec", "PP.Parse.lr_transparent_nonrec_fail",
    "PP.Parse.lr_memo_hits_transparent", "PP.Parse.lr_no_base", "PP.Parse.growLoop_peek_spec", "PP.Parse.growLoop_round_grows",
]

LR_MODES = [("lr", None), ("lr", 1), ("lr", 2), ("lr", 4)]
# no '-' and no fatal actions/conditions: a fatal exception escaping a Forward's growth loop is the registered finding
# ... and no failing actions / conditions: the growth loop's first (action-free) pass fails where the peek parse fails,
# not where the action would have failed (registered finding lr_peek_failure_location)
FWD_CFG = dict(forwards=2, p_reuse=0.65, errorstop=0.0, fatal_actions=False, failing_actions=False, ignore=0.05,
               comp_kinds=[k for k in gen.COMP_KINDS if k[0] != "-"] + [("fwdref", 7)])
NAMED = dict(FWD_CFG, names=0.35, actions=0.05)


def full_outcome(pp, root, s):
    try:
        r = root.parse_string(s)
        return ["ok", json.loads(json.dumps(r.as_list(), default=repr)), json.loads(json.dumps(r.as_dict(), default=repr)), r.dump()]
    except pp.ParseBaseException as ex:
        return ["exc", type(ex).__name__, ex.loc, ex.msg]
    except RecursionError:
        return ["internal", "RecursionError"]
    except Exception as ex:  # noqa
        return ["internal", type(ex).__name__, str(ex)[:80]]


def has_fatal_in_forward(pp, root):
    """signature region of lr_stale_seed_after_fatal: an error stop / fatal action reachable inside a Forward body"""
    seen, todo = set(), [(root, False)]
    while todo:
        e, inside = todo.pop()
        if (id(e), inside) in seen:
            continue
        seen.add((id(e), inside))
        if inside and type(e) is pp.And._ErrorStop:
            return True
        ins = inside or isinstance(e, pp.Forward)
        for c in corr_parse._children(pp, e):
            todo.append((c, ins))
    return False


def oracle_job(job):
    pp = common.import_pyparsing()
    try:
        b = gram.build(pp, job["prog"])
        root = gram.prepare(b, job["root"])
    except Exception:
        return 0, []
    if corr_parse.nullable_rep(pp, root) or (not job.get("witness") and has_fatal_in_forward(pp, root)):
        return 0, []
    n, bad = 0, []
    for s in job["inputs"]:
        base = None
        for mode in [("none",)] + LR_MODES:
            corr_parse.set_mode(pp, mode)
            try:
                o = common.with_alarm_retry(corr_parse.CASE_TIMEOUT, full_outcome, pp, root, s)
            except common.CaseTimeout:
                o = ["hang"]
            finally:
                pp.ParserElement.disable_memoization()
            n += 1
            if mode == ("none",):
                base = o
            elif o != base and base not in (["hang"], ["internal", "RecursionError"]):
                bad.append({"prog": job["prog"], "root": job["root"], "input": s, "mode": list(mode), "expected": base, "actual": o})
                break
    return n, bad


def run_oracle(ctx, stream, jobs, signature=None):
    res = common.pmap(oracle_job, jobs)
    n = sum(r[0] for r in res)
    bad = [m for r in res for m in r[1]]
    ctx.count_cases(stream, n, distinct_keys=[json.dumps([j["prog"], s]) for j in jobs for s in j["inputs"]],
                    outcomes={"calls": n, "mismatch": len(bad)},
                    samples=[{"prog": jobs[0]["prog"], "root": jobs[0]["root"], "input": jobs[0]["inputs"][0]}] if jobs else [])
    for m in bad[:3]:
        ctx.fail_input("left-recursion mode changes an outcome of a non-left-recursive grammar",
                       {k: m[k] for k in ("prog", "root", "input", "mode")}, m["expected"], m["actual"],
                       theorem="C03 statement (LR-vs-none oracle)", signature=signature,
                       how="gram.build(prog); enable_left_recursion(mode[1]) vs disable_memoization()")
    return bad


CORPUS = [
    # the leak fixed by 5ff7cdc: tokens extended in place by an enclosing And that later fails
    dict(prog=[["F", "Forward"], ["a", "Literal", "a"], ["_", "<<=", "F", "a"], ["b", "Literal", "b"], ["c", "Literal", "c"],
               ["s1", "And", ["F", "b", "c"]], ["s2", "And", ["F", "b"]], ["root", "|", "s1", "s2"]], root="root", inputs=["a b", "a b c"]),
    # three alternatives re-parsing the same Forward at the same location: a memo hit that handed out the memoised object
    # itself would let the second alternative's in-place `+=` poison the third
    dict(prog=[["F", "Forward"], ["a", "Literal", "a"], ["_", "<<=", "F", "a"], ["b", "Literal", "b"], ["c", "Literal", "c"],
               ["d", "Literal", "d"], ["s1", "And", ["F", "b", "c"]], ["s2", "And", ["F", "b", "d"]], ["s3", "And", ["F", "b"]],
               ["root", "MatchFirst", ["s1", "s2", "s3"]]], root="root", inputs=["a b", "a b d", "a b c"]),
    dict(prog=[["F", "Forward"], ["a", "Word", "a"], ["g", "Group", "a"], ["_", "<<=", "F", "g"], ["b", "Literal", "b"],
               ["c", "Literal", "c"], ["o1", "And", ["F", "b", "c"]], ["o2", "And", ["F", "b", "b", "c"]], ["o3", "And", ["F", "b"]],
               ["root", "Or", ["o1", "o2", "o3"]], ["rr", "OneOrMore", "root"]], root="rr", inputs=["a b a b b", "a b", "a b c a b"]),
    # the aliased action failure fixed by af5d31e: the memo must keep a copy of an exception raised in the actions pass
    dict(prog=[["F", "Forward"], ["w", "Word", "ab"], ["wsub", "copy", "w"], ["_", "action", "wsub", ["failP"]], ["wg", "Group", "w"],
               ["x", "Literal", "x"], ["wx", "+", "wg", "x"], ["b", "MatchFirst", ["wsub", "wx"]], ["_", "<<=", "F", "b"],
               ["g", "Suppress", "F"], ["_", "set_name", "g", "item"], ["first", "Opt", "g"], ["root", "+", "first", "F"]],
         root="root", inputs=["a q", "a x", "a"], witness=True),
    # the retained seed fixed by 9a7c23f
    dict(prog=[["F", "Forward"], ["w", "Word", "a"], ["x", "Literal", "x"], ["wx", "+", "w", "x"], ["_", "<<=", "F", "wx"],
               ["o", "Opt", "F"], ["root", "+", "o", "F"]], root="root", inputs=["a q", "a x a x", "a"]),
]
# registered finding: a fatal exception leaving a Forward's growth loop leaves the failure seed behind
WITNESS_PEEK = dict(witness=True, prog=[["F", "Forward"], ["w", "Word", "ab "], ["e", "StringEnd"], ["we", "+", "w", "e"],
                                        ["_", "condition", "we", False, {"fatal": False}], ["two", "+", "we", "we"],
                                        ["_", "<<=", "F", "two"], ["root", "|", "two", "F"]], root="root", inputs=[" a    a "])
WITNESS_F9 = dict(witness=True, prog=[["F", "Forward"], ["a", "Literal", "a"], ["b", "Word", "b"], ["w", "Word", "a"],
                                      ["t", "-", "b", "w"], ["body", "+", "a", "t"], ["alt", "|", "body", "b"],
                                      ["_", "<<=", "F", "alt"], ["n", "~", "F"], ["o", "Opt", "n"], ["root", "+", "o", "F"]],
                  root="root", inputs=["a b b", "a b", "b"])


def template_jobs(ctx, n):
    """directed shapes for the memo's aliasing hazards: (a) one Forward parsed at the same location by several alternative
    sequences, a later element of an alternative that fails late carries a results name (a name written into a shared
    memo entry would surface in the next alternative); (b) the same Forward failing twice at one location, first inside a
    wrapper that rewrites the message of the exception it catches (set_name'd Group/Opt, MatchFirst failing at its start)
    and is then discarded (a memoised exception aliased with the propagating one would report the rewritten message)"""
    jobs = []
    for i in range(n):
        r = random.Random(f"C03-{ctx.seed}-tpl-{i}")
        names = ["n", "n*", "key", "key*"]
        prog = [["F", "Forward"], ["w", "Word", "ab"]]
        body = "w"
        if r.random() < 0.4:
            prog.append(["wn", "name", "w", r.choice(names)])
            body = "wn"
        if r.random() < 0.4:
            prog.append(["wg", "Group", body])
            body = "wg"
        if r.random() < 0.4:
            prog += [["x", "Literal", "x"], ["wx", "+", body, "x"]]
            body = "wx"
        if r.random() < 0.25:
            # the body's action raises an application-defined ParseException subclass: a revisit must raise the same class
            prog += [["wsub", "copy", "w"], ["_", "action", "wsub", ["failSub"]], ["bsub", "MatchFirst", ["wsub", body]] if r.random() < 0.5
                     else ["bsub", "copy", "wsub"]]
            body = "bsub"
        prog.append(["_", "<<=", "F", body])
        f = "F"
        if r.random() < 0.3:
            prog += [["G", "Forward"], ["_", "<<=", "G", "F"]]
            f = "G"
        prog += [["d0", "Word", "01"], ["d", "name", "d0", r.choice(names)], ["c", "Literal", r.choice(["c", ";"])],
                 ["y", "Literal", "y"]]
        if r.random() < 0.5:
            # (a) names
            prog.append(["s1", "And", [f, "d", "c"]])
            prog.append(["s2", "And", [f, "d0"]] if r.random() < 0.7 else ["s2", "And", [f, "d"]])
            alts = ["s1", "s2"]
            if r.random() < 0.3:
                prog.append(["s0", "And", [f, "d", "d", "c"]])
                alts = ["s0"] + alts
            prog.append(["root", r.choice(["MatchFirst", "Or"]), alts])
            root = "root"
            if r.random() < 0.3:
                prog.append(["rr", "OneOrMore", "root"])
                root = "rr"
        else:
            # (b) messages
            k = r.random()
            if k < 0.4:
                prog += [["g", r.choice(["Group", "Suppress", "copy"]), f], ["_", "set_name", "g", "item"], ["first", "Opt", "g"]]
            elif k < 0.7:
                prog += [["m", "MatchFirst", [f, "y"]], ["first", "Opt", "m"]]
            else:
                prog += [["m", "MatchFirst", [f, "y"]], ["nm", "~", "m"], ["first", "Opt", "nm"]]
            # the second visit is the Forward itself or, when there is one, the message-rewriting wrapper again
            second = f
            if r.random() < 0.5:
                second = "g" if k < 0.4 else "m"
                if r.random() < 0.5:   # the first visit fails late inside an optional prefix:  Opt(w + '!') + w
                    prog = [st for st in prog if st[0] != "first"]
                    prog += [["bang", "Literal", "!"], ["pre", "+", second, "bang"], ["first", "Opt", "pre"]]
            prog.append(["root", "+", "first", second])
            root = "root"
        jobs.append(dict(prog=prog, root=root, inputs=["a 1", "a 1 c", "a q", "q", "a x 1", "a x 1 c", "a x q", "a 1 1 c", "a",
                                                       "a x", "a 1 a 1 ;", "y a"]))
    # (c) trial parses: two sequences of an Or start with the same Forward; the first matches further elements and fails
    #     late, the second carries a condition that runs during the trial pass and looks at the tokens it is handed
    for i in range(max(n // 3, 20)):
        r = random.Random(f"C03-{ctx.seed}-tpl-trial-{i}")
        prog = [["F", "Forward"], ["d", "Word", "01"], ["_", "<<=", "F", "d"], ["c", "Literal", ","], ["bang", "Literal", "!"],
                ["d2", "Word", "01"]]
        m = r.choice([1, 2])
        s1 = ["F"] + ["c", "d2"] * m + ["bang"]
        s2 = ["F"] + ["c", "d2"] * m
        prog += [["s1", "And", s1], ["s2", "And", s2], ["_", "cond_len", "s2", len(s2), {"call_during_try": True}]]
        k = r.choice(["or", "or", "not", "skipto"])
        if k == "or":
            prog.append(["root", "Or", ["s1", "s2"]])
        elif k == "not":
            prog += [["alts", "MatchFirst", ["s1", "s2"]], ["n", "~", "alts"], ["w", "Word", "01,!"], ["root", "MatchFirst", [["n", "w"][0], "alts"]]]
        else:
            prog += [["alts", "MatchFirst", ["s1", "s2"]], ["root", "SkipTo", "alts", {"include": True}]]
        jobs.append(dict(prog=prog, root="root", inputs=["1,0", "1,0!", "1,0,1", "1,0,1!", "x 1,0", "1", "1,", "10,01,1", "0 , 1"]))
    return jobs


def run(ctx):
    common.import_pyparsing()
    ctx.proof_leg("PPProofs.Props.C03", THEOREMS)
    ctx.rule.append("programs from harness/gen.py with 2 Forwards referenced from several composites (weight 7), sharing 0.65, "
                    "no '-' / fatal actions (registered finding region); a second stream adds results names and groups; inputs "
                    "sampled from the grammar + mutations; modes lr None/1/2/4; non-trivial = distinct (program,input)")
    run_oracle(ctx, "corpus", CORPUS)
    run_oracle(ctx, "known-finding-witness:fatal-seed", [WITNESS_F9], signature="lr_stale_seed_after_fatal")
    run_oracle(ctx, "known-finding-witness:peek-location", [WITNESS_PEEK], signature="lr_peek_failure_location")
    jobs = []
    for i in range(ctx.budget(900, 9000)):
        rng = random.Random(f"C03-{ctx.seed}-corr-{i}")
        prog, root, inputs = gen.gen_case(rng, gen.Cfg(**FWD_CFG), 5)
        jobs.append(dict(prog=prog, root=root, inputs=inputs, entries=[("parse", ()), ("scan", (100, True, False))],
                         modes=[("lr", None), ("lr", 1), ("lr", 2)]))
    corr_parse.run_jobs(ctx, "model(parseLR)-vs-real:lr", jobs)
    run_oracle(ctx, "oracle:lr-vs-none:aliasing-templates", template_jobs(ctx, ctx.budget(600, 6000)))
    # entry points are independent of earlier calls with the same objects (each resets the memo): parse A, then scan B
    from . import c08
    pj = []
    for i in range(ctx.budget(300, 3000)):
        rng = random.Random(f"C03-{ctx.seed}-prior-{i}")
        prog, root, inputs = gen.gen_case(rng, gen.Cfg(**FWD_CFG), 5)
        pj.append(dict(prog=prog, root=root, inputs=inputs))
    res = common.pmap(c08.prior_job, pj)
    badp = [m for r_ in res for m in r_[1] if m["mode"][0] == "lr"]
    ctx.count_cases("oracle:independent-of-earlier-calls", sum(r_[0] for r_ in res), outcomes={"mismatch": len(badp)})
    for m in badp[:2]:
        ctx.fail_input("left-recursion mode: an entry point depends on what was parsed before",
                       {"prior": True, **{k: m[k] for k in ("prog", "root", "input", "mode", "others")}}, m["expected"], m["actual"],
                       theorem="C03 statement (memo reset at every entry point)", how="harness.props.c08.prior_job")
    mult = 5 if (ctx.broken and not ctx.fail_inputs) else 1
    oj = [dict(prog=j["prog"], root=j["root"], inputs=j["inputs"]) for j in jobs]
    run_oracle(ctx, "oracle:lr-vs-none", oj)
    nj = []
    for i in range(ctx.budget(700, 7000) * mult):
        rng = random.Random(f"C03-{ctx.seed}-named-{i}")
        prog, root, inputs = gen.gen_case(rng, gen.Cfg(**NAMED), 5)
        nj.append(dict(prog=prog, root=root, inputs=inputs))
    run_oracle(ctx, "oracle:lr-vs-none:named", nj)


def replay(data):
    if data.get("replay_kind") == "failing-input" and data["case"].get("prior"):
        from . import c08
        c = data["case"]
        return any(m["mode"][0] == "lr" for m in c08.prior_job(dict(prog=c["prog"], root=c["root"], inputs=[c["input"]] + [o for o in c["others"] if o != c["input"]]))[1])
    if data.get("replay_kind") == "failing-input":
        c = data["case"]
        return bool(oracle_job(dict(prog=c["prog"], root=c["root"], inputs=[c["input"]], witness=True))[1])
    ctx = common.Ctx("C03", "quick", data.get("seed", 0))
    run(ctx)
    return bool(ctx.broken or ctx.fail_inputs)
