"""C06 — parsing is total: only ParseBaseException escapes, with sane diagnostics.

proof:           lean/PPProofs/Props/C06.lean (no IndexError leaves any _parse call / parse_string / scan_string, for
                 every grammar of the modelled class, input, location; leaves raise IndexError only at/after the end)
correspondence:  parse model vs real code on boundary-biased inputs (empty, blanks only, tabs, CR/LF, non-ASCII, match
                 attempts at and beyond the end of the text)
search (oracle): the statement executed on the real code: every entry point (parse_string, scan_string, search_string,
                 transform_string, split, matches, run_tests) terminates and raises nothing but ParseBaseException;
                 0 <= loc <= len (+1 only after an end anchor); str(), line, lineno, col, column, found,
                 mark_input_line(), explain() evaluate and agree with the parsed string. Two streams: the modelled
                 generator, and the WHOLE EXPORTED ZOO (harness/zoo.py) which the theorem does not cover.
"""
from __future__ import annotations

import io
import json
import random
import contextlib

from .. import common, corr_parse, gen, gram, zoo
from .c14 import oracle_linecol

META = dict(
    text="Lean theorems (PPProofs/Props/C06.lean) prove, for every grammar of the modelled class (whose empty Ands carry "
         "mayIndexError, re-checked on the live class every run), every input, location and fuel: no raw IndexError leaves "
         "any _parse call (no_indexerror_escapes), parse_string(parse_all) (parseString_no_indexerror) or scan_string and "
         "therefore search_string/transform_string/split (scanString_no_indexerror); a leaf raises IndexError only when "
         "matching at or beyond the end of the text, the case _parseNoCache converts (leaf_indexerror_only_at_end); a "
         "successful _parse of any element never ends before the location it was called at (parse_match_forward); every "
         "location reported - the end of a match, the loc of the ParseBaseException raised by any _parse call or by "
         "parse_string(parse_all), every (tokens, start, end) of scan_string and every exception escaping it - is <= "
         "len(text) + 1 (parse_locations_inside, parseString_error_loc_inside, scanString_locations_inside; induction "
         "over the fuel through every parseImpl, PPProofs/Lemmas/ParseBound.lean). "
         "lineno/col/line consistency for every loc is C14's theorem. TERMINATION (PPProofs/Props/C06Term.lean, lemmas "
         "PPProofs/Lemmas/ParseTerm.lean) is proved at full strength for NON-RECURSIVE grammars: for every node table g "
         "passing the executable well-foundedness test rankOk g r (every id a node refers to - sub-expressions, stop_on / "
         "fail_on / ignorer, ignorables - is inside the table and has smaller rank r; a Forward cycle fails it for every "
         "r), every input s satisfying the property's own side condition Advancing g s (an ignorable that matches "
         "consumes something; a repetition body that matches ends strictly after the location the loop is at - stated at "
         "the model's two non-advance tests, for the model's own recursive calls), every element id of the table, every "
         "location and flags and every fuel > r id, the model's _parse does not answer `hang` (acyclic_terminates; "
         "acyclic_terminates_uniform for one fuel bound serving the whole table; acyclic_terminates_depth with the rank computed: "
         "fuel >= height of the element, executable test depthOk); likewise parse_string incl. parse_all "
         "(parseString_terminates) and scan_string, whose own loop budget 2*len+4 never runs out (scanString_terminates). "
         "advancing_of_nonempty gives the simpler sufficient condition (such bodies / ignorables "
         "never match empty), and advOk g k is an EXECUTABLE sufficient test for it (every ignorable / repetition body is a "
         "token leaf Literal/Word/CharsNotIn/non-empty CaselessLiteral/Keyword, an And containing one, a MatchFirst or Or of "
         "such, or a OneOrMore/Group/Suppress/Combine/Located/Forward wrapper of such; soundness consumes_sound, PPProofs/Lemmas/ParseStrict.lean): for tables passing rankOk "
         "and advOk, termination holds on EVERY input with decidable hypotheses only (acyclic_terminates_checked, "
         "entry_points_terminate_checked); exG_advancing instantiates it for a concrete 4-node grammar. The inner loops' "
         "private budgets (len+2) are shown never to run out (positions strictly increase and stay <= len+1). PARTIAL: "
         "RECURSIVE grammars (PPProofs/Props/C06Rec.lean, lemmas PPProofs/Lemmas/ParseTermRec.lean): recursive_terminates_partial "
         "- for node tables passing the executable test leftRankOk g r k R (every reference that can be entered without prior "
         "consumption - an And's operands up to and including the first that `consumes`, all alternatives, wrapper children, "
         "Forward targets, stop_on, ignorables - goes to smaller rank; operands after a consuming operand may refer anywhere, "
         "so Forward cycles through a consuming step are allowed; all kinds incl. SkipTo; StringStart without ignorables), under Advancing, "
         "_parse does not answer hang for every fuel > (len+1-loc)*(R+1) + r id (lexicographic induction on remaining input "
         "and rank); recursive_terminates_checked_partial with advOk. PARTIAL: "
         "left-recursive tables are outside the recursive theorem (rightly: the code recurses for ever), the harness "
         "evaluates the acyclic tests and, for cyclic tables, the computed-rank test recTableOk (recursive_terminates_depth_partial, "
         "entry_points_terminate_rec_partial: fuel > (len+1)*(D+1)+D) on extracted grammars, Advancing is a semantic hypothesis "
         "(advOk decides only a sufficient fragment: SkipTo, Opt, lookaheads, anchors as bodies are not recognised), the "
         "theorem is about the "
         "model (`hang` = where the code would loop), tied to the code by the correspondence stream; termination of the real "
         "entry points is observed by the oracle's per-case alarm. TIE: the two tests are core-Lean definitions "
         "(PPModel/Mod/TermCheck.lean) evaluated by the driver (entry termcheck) on EVERY node table extracted in the "
         "correspondence stream; for tables where depthOk g |g| root and advOk g |g| hold, entry_points_terminate_depth "
         "(fuel 1500 >= |g|) says the model never answers hang, so a per-case timeout of the real parse_string / scan_string / "
         "split there is reported as a failing input of that theorem (evidence: termination_fragment - how many compared "
         "grammars / cases fall under it); the other internal exception types, the diagnostic accessors and every class outside the model (Each, Regex, QuotedString, White, Dict, "
         "IndentedBlock, helpers, pyparsing_common) are decided by the real-code oracle over the modelled generator and the "
         "whole exported zoo.",
    note="Trusted: Lean kernel; axioms propext/Classical.choice/Quot.sound; the parse model (validated differentially on "
         "every run); CPython's IndexError semantics for str indexing as transcribed (s[i]? = none <-> i >= len). Zoo sweep "
         "is search, not proof.",
    technique="Lean 4 proof (IndexError containment by induction on fuel over a transcribed parse model) + differential "
              "correspondence + statement-as-oracle sweep of all entry points over the exported zoo",
    design="§5 C06",
)

THEOREMS = [
    "PP.Parse.no_indexerror_escapes", "PP.Parse.parse_match_forward", "PP.Parse.parse_locations_inside",
    "PP.Parse.parseString_error_loc_inside", "PP.Parse.scanString_locations_inside",
    "PP.Parse.leaf_indexerror_only_at_end",
    "PP.Parse.parseString_no_indexerror",
    "PP.Parse.scanString_no_indexerror",
    "PP.Parse.parse_noIdx",
    "PP.Parse.parseImpl_idx",
    "PP.LineCol.C14_linecol_consistent",
    "PP.Parse.acyclic_terminates", "PP.Parse.acyclic_terminates_uniform", "PP.Parse.parseString_terminates", "PP.Parse.scanString_terminates",
    "PP.Parse.advancing_of_nonempty", "PP.Parse.exG_advancing", "PP.Parse.rankOk_spec",
    "PP.Parse.consumes_sound", "PP.Parse.advancing_of_advOk", "PP.Parse.acyclic_terminates_checked",
    "PP.Parse.entry_points_terminate_checked", "PP.Parse.acyclic_terminates_depth",
    "PP.Parse.entry_points_terminate_depth",
    "PP.Parse.recursive_terminates_partial", "PP.Parse.recursive_terminates_checked_partial",
    "PP.Parse.recursive_terminates_depth_partial", "PP.Parse.entry_points_terminate_rec_partial",
]

BOUNDARY = ["", " ", "\t", "\n", " \n ", "\r\n", "a", "ab", "ab ", " ab", "a\tb", "é", "aé b", "ab\n", "ab\n\n", "b", "a,", ",", "a\n b"]


def check_exception(pp, ex, parsed_variants):
    """diagnostics of a raised ParseBaseException; returns list of problems"""
    probs = []
    if ex.pstr not in parsed_variants:
        # the exception may legitimately refer to an inner string only for nested parses; we only built flat grammars
        probs.append(f"pstr is not the parsed string: {ex.pstr!r:.40}")
        return probs
    n = len(ex.pstr)
    if not (0 <= ex.loc <= n + 1):
        probs.append(f"loc {ex.loc} outside 0..{n}+1")
        return probs
    for name, fn in (("str", lambda: str(ex)), ("line", lambda: ex.line), ("lineno", lambda: ex.lineno), ("col", lambda: ex.col),
                     ("column", lambda: ex.column), ("found", lambda: ex.found), ("mark_input_line", lambda: ex.mark_input_line()),
                     ("explain", lambda: ex.explain()), ("repr", lambda: repr(ex))):
        try:
            fn()
        except Exception as e2:  # noqa
            probs.append(f"{name} raised {type(e2).__name__}: {e2}")
    if not probs and ex.loc <= n:
        d = oracle_linecol(pp, ex.pstr, ex.loc)
        if d:
            probs.append("line/col of exception: " + d)
        if (ex.lineno, ex.col, ex.line) != (pp.lineno(ex.loc, ex.pstr), pp.col(ex.loc, ex.pstr), pp.line(ex.loc, ex.pstr)):
            probs.append("exception lineno/col/line differ from util.lineno/col/line")
    return probs


def entry_points(pp, expr, s):
    """(name, thunk) for every entry point of the statement"""
    def drain(g):
        return list(g)

    def run_tests():
        with contextlib.redirect_stdout(io.StringIO()):
            return expr.run_tests([s] if s.strip() and "\n" not in s else ["ab"], print_results=False, comment=None)

    return [
        ("parse_string", lambda: expr.parse_string(s)),
        ("parse_all", lambda: expr.parse_string(s, parse_all=True)),
        ("scan_string", lambda: drain(expr.scan_string(s))),
        ("scan_overlap", lambda: drain(expr.scan_string(s, overlap=True, max_matches=5))),
        ("search_string", lambda: expr.search_string(s)),
        ("transform_string", lambda: expr.copy().transform_string(s)),
        ("split", lambda: drain(expr.split(s))),
        ("split_sep", lambda: drain(expr.split(s, maxsplit=2, include_separators=True))),
        ("matches", lambda: expr.matches(s)),
        ("eq", lambda: expr == s),
        ("run_tests", run_tests),
    ]


def total_on(pp, expr, s, timeout=2.0):
    """run every entry point; returns (n_calls, problems, n_timeouts)"""
    probs, n, to = [], 0, 0
    variants = {s, s.expandtabs()}
    for name, th in entry_points(pp, expr, s):
        n += 1
        try:
            common.with_alarm(timeout, th)
        except common.CaseTimeout:
            to += 1
            break  # the remaining entry points run the same loop
        except pp.ParseBaseException as ex:
            for p in check_exception(pp, ex, variants):
                probs.append(f"{name}: {p}")
        except RecursionError:
            probs.append(f"{name}: RecursionError")
        except Exception as ex:  # noqa
            import os as _os
            import traceback as _tb
            fr = [(_os.path.basename(f.filename), f.name) for f in _tb.extract_tb(ex.__traceback__)
                  if _os.sep + "pyparsing" + _os.sep in f.filename]
            sig = ""
            if type(ex) is IndexError and fr[-2:] == [("core.py", "split"), ("results.py", "__getitem__")]:
                sig = " [sig:split_include_separators_no_tokens]"
            probs.append(f"{name}: {type(ex).__name__}: {str(ex)[:80]}{sig}")
    return n, probs, to


def split_sep_empty_tokens(pp, expr, s):
    """signature predicate of the known finding: some scan_string match of expr on s has no tokens"""
    try:
        return any(not t for t, _, _ in common.with_alarm(2.0, lambda: list(expr.scan_string(s, max_matches=3))))
    except BaseException:  # noqa
        return False


def modelled_job(job):
    pp = common.import_pyparsing()
    try:
        b = gram.build(pp, job["prog"])
        root = gram.prepare(b, job["root"])
    except Exception:
        return 0, [], 0
    if corr_parse.nullable_rep(pp, root):
        return 0, [], 0
    pp.ParserElement.disable_memoization()
    n, bad, tos = 0, [], 0
    for s in job["inputs"]:
        k, probs, to = total_on(pp, root, s)
        n += k
        tos += to
        term_line = None
        if to:
            probs = probs + [f"{to} entry point(s) did not terminate within the per-call limit (no nullable repetition body)"]
            try:   # does the termination theorem cover this grammar? (asked of the driver by report())
                nodes, ri = gram.extract(b, root)
                term_line = gram.model_line(corr_parse.mode_sexp(("none",)), "termcheck", 0, ri, " ", "", False, [], nodes)
            except Exception:  # noqa  (outside the model: the plain oracle statement applies)
                term_line = None
        if probs:
            bad.append({"stream": "modelled", "prog": job["prog"], "root": job["root"], "input": s, "problems": probs[:4]})
            if term_line:
                bad[-1]["term_line"] = term_line
    return n, bad, tos


def zoo_build(pp, seed):
    rng = random.Random(seed)
    L = zoo.leaves(pp, rng)
    W1, W2 = zoo.wrappers(pp, rng)
    desc = []

    def mk(depth):
        if depth == 0 or rng.random() < 0.25:
            i = rng.randrange(len(L))
            desc.append(f"L{i}")
            return L[i]()
        if rng.random() < 0.6:
            i = rng.randrange(len(W1))
            desc.append(f"W1_{i}(")
            r = W1[i](mk(depth - 1))
        else:
            i = rng.randrange(len(W2))
            desc.append(f"W2_{i}(")
            r = W2[i](mk(depth - 1), mk(depth - 1))
        desc.append(")")
        return r

    e = mk(rng.choice([1, 2, 2, 3]))
    return e, "".join(desc)


def cdt_spread(pp, expr):
    """region of the registered finding `call_during_try_spreads`: an element that carries call_during_try (set for the
    whole element by match_previous_literal/_expr's own action) together with further parse actions"""
    seen, todo = set(), [expr]
    while todo:
        e = todo.pop()
        if id(e) in seen:
            continue
        seen.add(id(e))
        if e.callDuringTry and len(e.parseAction) >= 2:
            return True
        todo.extend(corr_parse._children(pp, e))
    return False


def zoo_job(seed):
    pp = common.import_pyparsing()
    import warnings
    warnings.simplefilter("ignore")
    try:
        expr, desc = zoo_build(pp, seed)
        if not isinstance(expr, pp.ParserElement):
            return 0, [], 0, None
        expr.streamline()
    except Exception:
        return 0, [], 0, None  # the constructor refused the arguments
    try:
        if corr_parse.nullable_rep(pp, expr) or cdt_spread(pp, expr):
            return 0, [], 0, None
    except Exception:
        return 0, [], 0, None
    pp.ParserElement.disable_memoization()
    rng = random.Random(f"{seed}-inputs")
    n, bad, tos = 0, [], 0
    for s in rng.sample(zoo.INPUTS, 8):
        try:
            fresh, _ = zoo_build(pp, seed)  # stateful helpers (match_previous_*, IndentedBlock, transform_string): fresh object per input
        except Exception:
            break
        k, probs, to = total_on(pp, fresh, s, timeout=1.0)
        n += k
        tos += to
        if tos >= 2:
            break
        if probs:
            bad.append({"stream": "zoo", "zoo_seed": seed, "desc": desc, "str": str(expr)[:120], "input": s, "problems": probs[:4]})
    return n, bad, tos, desc


def report(ctx, stream, res, jobs_desc):
    n = sum(r[0] for r in res)
    tos = sum(r[2] for r in res)
    bad = [m for r in res for m in r[1]]
    ctx.count_cases(stream, n, distinct_keys=jobs_desc, outcomes={"entry-point calls": n, "timeouts": tos, "problem cases": len(bad)},
                    samples=[jobs_desc[0]] if jobs_desc else [])
    seen = set()
    for m in bad:
        probs = list(m["problems"])
        # registered findings are recognised by their signature (exception type + raising frames), never by input
        for tag in ("split_include_separators_no_tokens",):
            rest = [p for p in probs if f"[sig:{tag}]" not in p]
            if len(rest) < len(probs):
                e = ctx.match_known(tag)
                if e is not None:
                    ctx.known(e)
                    probs = rest
        if not probs:
            continue
        key = probs[0][:60]
        if key in seen or len(seen) >= 3:
            continue
        seen.add(key)
        thm = "C06 statement (oracle)"
        if m.get("term_line") and any("did not terminate" in p for p in probs):
            try:
                if ctx.driver.run_sharded([m["term_line"]])[0].strip().startswith("(T T"):
                    thm = "PP.Parse.entry_points_terminate_depth (termcheck holds of the extracted table) + oracle"
            except Exception:  # noqa
                pass
        ctx.fail_input("an internal exception escapes / bad diagnostics / no termination", {k: m[k] for k in m if k not in ("problems", "term_line")},
                       "only ParseBaseException with consistent diagnostics, every entry point returns", probs, theorem=thm,
                       how="harness.props.c06.total_on(pp, expr, input)")
    return bad


def known_witnesses(ctx, pp):
    """replay the registered witnesses of the open findings; each prints its KNOWN-FINDING line only if it still fails
    the recorded way"""
    # split(include_separators=True) on a match without tokens
    n, probs, _ = total_on(pp, pp.Suppress(pp.Literal("a")), "bab")
    if any("[sig:split_include_separators_no_tokens]" in p for p in probs):
        e = ctx.match_known("split_include_separators_no_tokens")
        if e is not None:
            ctx.known(e)
        else:
            ctx.fail_input("IndexError escapes split()", {"program": "Suppress(Literal('a'))", "input": "bab"},
                           "no IndexError", probs, theorem="C06 statement (oracle)")
    # GoToColumn hands out locations beyond the end of the text (generators contain no GoToColumn)
    try:
        (pp.GoToColumn(3) + pp.NoMatch()).parse_string("\n")
    except pp.ParseBaseException as ex:
        if ex.loc > len(ex.pstr) + 1:
            ctx.fail_input("exception location outside the parsed string", {"program": "GoToColumn(3) + NoMatch()", "input": "\n"},
                           "loc <= len+1", f"loc {ex.loc}, len {len(ex.pstr)}", theorem="C06 statement (oracle)",
                           signature="gotocolumn_advances_past_end")
    # match_previous_literal/_expr switch call_during_try on for ALL actions of the expression they are given
    f = pp.pyparsing_common.mixed_integer.copy()
    pp.match_previous_literal(f)
    try:
        pp.SkipTo(f).parse_string("x 1")
    except pp.ParseBaseException:
        pass
    except TypeError as ex:
        ctx.fail_input("TypeError escapes parse_string", {"program": "f = pyparsing_common.mixed_integer.copy(); match_previous_literal(f); SkipTo(f)",
                       "input": "x 1"}, "no TypeError", f"TypeError: {ex}", theorem="C06 statement (oracle)",
                       signature="call_during_try_spreads")
    # pyparsing_common.ieee_float: (?i:...) lets U+0131 / U+0130 match the 'i' of inf / infinity, float() then rejects the text
    try:
        pp.pyparsing_common.ieee_float.parse_string("\u0131nf", parse_all=True)
    except pp.ParseBaseException:
        pass
    except ValueError as ex:
        ctx.fail_input("ValueError escapes parse_string", {"program": "pyparsing_common.ieee_float", "input": "\u0131nf"},
                       "ParseException or a float", f"ValueError: {ex}", theorem="C06 statement (oracle)",
                       signature="ieee_float_dotless_i")
    # regression (fixed): SkipTo.ignore() returned None, so composites built by chaining received None
    chained = pp.SkipTo(pp.Literal("a")).ignore(pp.Literal("#"))
    if chained is None:
        ctx.fail_input("ignore() does not return the expression (chained composites receive None and raise AttributeError when parsed)",
                       {"program": "IndentedBlock(SkipTo(Literal('a')).ignore(Literal('#')))", "input": "ab"},
                       "the SkipTo expression", None, theorem="C06 statement (oracle)", signature="skipto_ignore_returns_none")
    ctx.count_cases("known-finding-witnesses", 4)


def run(ctx):
    pp = common.import_pyparsing()
    ctx.proof_leg("PPProofs.Props.C06", THEOREMS, extra_modules=("PPProofs.Props.C06Term", "PPProofs.Props.C06Rec"))
    # generated facts the theorems' hypotheses rest on
    ctx.obligation("And([]).mayIndexError (WFIdx: an empty And carries the flag)", bool(pp.And([]).mayIndexError))
    ctx.obligation("IndexError is not a ParseBaseException", not issubclass(IndexError, pp.ParseBaseException))
    ctx.rule.append("modelled stream: harness/gen.py programs x (boundary inputs: empty, blanks, tabs, CR/LF, non-ASCII, "
                    "end-of-text anchors followed by more elements) + sampled sentences; zoo stream: random compositions "
                    "(depth<=3) of every exported ParserElement class/helper/pyparsing_common expression x 8 of 47 "
                    "boundary/near-syntax inputs x 11 entry points; nullable repetition bodies filtered; non-trivial = "
                    "distinct (expression, input)")
    known_witnesses(ctx, pp)
    jobs = []
    for i in range(ctx.budget(800, 8000)):
        rng = random.Random(f"C06-{ctx.seed}-corr-{i}")
        prog, root, inputs = gen.gen_case(rng, gen.Cfg(), 4)
        jobs.append(dict(prog=prog, root=root, inputs=list(inputs) + rng.sample(BOUNDARY, 5),
                         entries=[("parse", ()), ("parseAll", ()), ("scan", (100, True, False)), ("split", (100,))], modes=[("none",)],
                         want_term=True))
    ctx.term_bad = []
    res = corr_parse.run_jobs(ctx, "model-vs-real:boundary", jobs)
    # TERMINATION CLAUSE, tied to the theorem: on a grammar whose extracted node table passes the two executable tests
    # (driver entry `termcheck`: depthOk at the root, advOk) the model provably never answers `hang`
    # (entry_points_terminate_depth, fuel 1500 >= |g|); a real entry point that does not come back there is a failing input
    tf = ctx.notes.get("termination_fragment", {}).get("model-vs-real:boundary", {})
    ctx.obligation("model never answers hang on a grammar under entry_points_terminate_depth (theorem vs driver)",
                   tf.get("model_hangs_under_theorem", 0) == 0, json.dumps(tf))
    nto = 0
    for b in ctx.term_bad:
        if b["what"] != "real-timeout" or nto >= 2:
            continue
        nto += 1
        c = b["case"]
        ctx.fail_input("an entry point does not terminate on a non-recursive grammar whose repetition bodies / ignorables consume input",
                       {"corr": True, "timeout": True, "prog": c["prog"], "root": c["root"], "input": c["input"], "entry": c["entry"],
                        "opts": c["opts"]},
                       "returns or raises ParseBaseException (model: " + b["model"][:80] + ")", "no return within the per-case limit (10x retried)",
                       theorem="PP.Parse.entry_points_terminate_depth / entry_points_terminate_rec_partial + correspondence",
                       how="harness.gram.run_entry under common.with_alarm")
    # a diff on which the real code reports a location beyond len+1 is a failing input outright: the model's locations
    # are proved to lie inside the string (parse_locations_inside / parseString_error_loc_inside)
    import re as _re
    nrep = 0
    for d in res[0]:
        c = d["case"]
        lim = len(c["input"].expandtabs()) + 1
        if c["entry"] == "scan":
            ends = [int(x) for x in _re.findall(r" (\d+)\)(?= |\))", d["impl"])]
            m = _re.match(r"x", "x") if any(e > lim for e in ends) else None
            over = max(ends) if ends else 0
        elif c["entry"] in ("parse", "parseAll"):
            m = _re.match(r"\((?:fail \w+|ok) (\d+)", d["impl"])
            over = int(m.group(1)) if m else 0
        else:
            continue
        if m and over > lim and nrep < 2:
            nrep += 1
            ctx.fail_input("a reported location lies outside the parsed string",
                           {"corr": True, "prog": c["prog"], "root": c["root"], "input": c["input"], "entry": c["entry"]},
                           "loc <= len + 1 (model: " + d["model"][:80] + ")", d["impl"][:120],
                           theorem="PP.Parse.parse_locations_inside + correspondence")
    mult = 5 if (ctx.broken and not ctx.fail_inputs) else 1
    mj = [dict(prog=j["prog"], root=j["root"], inputs=j["inputs"][:6]) for j in jobs[: ctx.budget(400, 4000) * mult]]
    report(ctx, "oracle:modelled", common.pmap(modelled_job, mj), [json.dumps(j["prog"])[:200] for j in mj])
    seeds = [f"C06-zoo-{ctx.seed}-{i}" for i in range(ctx.budget(1200, 12000) * mult)]
    res = common.pmap_hard(zoo_job, seeds, per_item_timeout=12.0)
    hard = [sd for sd, r in zip(seeds, res) if r == common.HARD_TIMEOUT]
    res = [r for r in res if r != common.HARD_TIMEOUT and not (isinstance(r, tuple) and r and r[0] == "__worker_exception__")]
    ctx.notes["zoo_hard_timeouts"] = {"count": len(hard), "seeds": hard[:10],
                                       "note": "expressions that spin inside C code / beyond the per-call guard; counted, not reported"}
    report(ctx, "oracle:zoo", res, [r[3] for r in res if r[3]])
    ctx.assumptions.append("C06: termination, location bounds and classes outside the parse model are decided by the oracle sweep")


def replay(data):
    if data.get("replay_kind") == "failing-input" and data["case"].get("corr"):
        c = data["case"]
        pp = common.import_pyparsing()
        root = gram.prepare(gram.build(pp, c["prog"]), c["root"])
        if c.get("timeout"):
            try:
                common.with_alarm(corr_parse.CASE_TIMEOUT, gram.run_entry, pp, root, c["entry"], c["input"], tuple(c.get("opts", ())))
                return False
            except common.CaseTimeout:
                return True
        if c["entry"] == "scan":
            return any(e > len(c["input"].expandtabs()) + 1 for _, _, e in root.scan_string(c["input"]))
        try:
            r = root.parse_string(c["input"], parse_all=(c["entry"] == "parseAll"))
            return False
        except pp.ParseBaseException as ex:
            return ex.loc > len(ex.pstr) + 1
    pp = common.import_pyparsing()
    if data.get("replay_kind") == "failing-input":
        c = data["case"]
        if c.get("stream") == "zoo":
            return bool(zoo_job(c["zoo_seed"])[1])
        return bool(modelled_job(dict(prog=c["prog"], root=c["root"], inputs=[c["input"]]))[1])
    ctx = common.Ctx("C06", "quick", data.get("seed", 0))
    run(ctx)
    return bool(ctx.broken or ctx.fail_inputs)
