"""C15 leg: NESTED entry-point calls made by parse actions / conditions.

A grammar whose parse action (or condition) re-parses the matched text through a shared sub-grammar with
parse_string / scan_string / search_string / transform_string makes a second entry (reset_cache() + parse) while
the outer parse is still running - in packrat mode with packrat_cache_lock held, in left-recursion mode with
recursion_lock held.

model:   Threads.lean Part 2 `Act.entry` (modes off/packrat: all C15 theorems cover it) and Part 5 `Locks`
         (both locks, all modes: Locks.lock_order_no_deadlock / nested_entry_no_deadlock)
tie:     * call tables with `(entry key)` children learnt from serial runs -> `threads-run` predicts the complete
           event trace + results of the real code under the same schedule (modes off/packrat)
         * every logged trace is a run of `evStep` (`threads-validate`, all modes)
         * every thread's logged lock operations respect the order recursion_lock < packrat_cache_lock
           (`locks-check` = `Locks.firstViolation codeRank`: the hypothesis of lock_order_no_deadlock)
oracle:  on the real code, under the deterministic scheduler: (a) ALL interleavings at lock-region granularity
         (stateless depth-first search over the scheduler's choice points, limit per case), (b) every placement of the
         other threads' entry relative to each LOCK operation (acquire / release, re-entrant ones included) of a first
         thread.  A run in which no
         thread is enabled while some thread is unfinished is a deadlock (found by the scheduler, no timeouts); every
         thread's outcome must equal its outcome alone.
"""
from __future__ import annotations

import json

from ..sexp import Sym, dumps, loads
from . import c15_sched as S

VIAS = ("parse", "scan", "search", "transform")


def call_via(sub, via, text):
    if via == "parse":
        return sub.parse_string(text).as_list()
    if via == "scan":
        return [x for toks, a, b in sub.scan_string(text) for x in (toks.as_list() + [a, b])]
    if via == "search":
        return sub.search_string(text).as_list()
    if via == "transform":
        return sub.transform_string(text)
    raise ValueError(via)


def nested_call(get_sub, via, text):
    """the nested entry call, bracketed by marker pseudo-events (so that the serial learner knows which cache
    lookups belong to the nested call's own driver loop)"""
    ses = S.current()
    sub = get_sub()
    if ses is not None:
        ses.mark([Sym("nbeg"), ses.I.expr(sub), ses.I.string(text), VIAS.index(via)])
    out = None
    try:
        out = call_via(sub, via, text)
    finally:
        if ses is not None:
            ses.mark([Sym("nend"), ses.I.val("nested " + repr(out))])
    return out


def reparse(get_sub, via):
    return lambda t: [nested_call(get_sub, via, t[0])]


def grammars(pp):
    """name -> builder(via) -> dict(rec=<outer grammar>, sub=<shared sub-grammar>)"""

    def mk_sub():
        integer = pp.Word(pp.nums).set_parse_action(lambda t: int(t[0]))
        return pp.DelimitedList(integer)

    def field(via):  # the idiom of a quoted field whose content is re-parsed
        sub = mk_sub()
        rec = pp.QuotedString('"').set_parse_action(reparse(lambda: sub, via))
        return dict(rec=rec, sub=sub)

    def rows(via):  # several nested calls per parse
        sub = mk_sub()
        fld = pp.Word(pp.nums + ",").set_parse_action(reparse(lambda: sub, via))
        rec = pp.Group(fld) + pp.ZeroOrMore(pp.Suppress(";") + pp.Group(fld))
        return dict(rec=rec, sub=sub)

    def cond(via):  # a CONDITION that calls an entry point; alternatives re-visit the element (cache hit)
        sub = mk_sub()
        fld = pp.Word(pp.nums + ",").add_condition(lambda t: len(nested_call(lambda: sub, via, t[0])) > 0)
        rec = (fld + pp.Literal("!")) | (fld + pp.Literal("?")) | pp.Word(pp.nums + ",")
        return dict(rec=rec, sub=sub)

    def deep(via):  # nesting depth 2: the nested call's own action makes a nested call
        sub = mk_sub()
        item = pp.Word(pp.nums + ",").set_parse_action(reparse(lambda: sub, via))
        mid = pp.DelimitedList(item, delim=";")
        rec = pp.QuotedString("'").set_parse_action(reparse(lambda: mid, "parse"))
        return dict(rec=rec, sub=sub)

    return {"field": field, "rows": rows, "cond": cond, "deep": deep}


def lr_grammars(pp):
    def lrrows(via):  # both grammars left-recursive; the re-parsing action runs inside Forward.parseImpl
        integer = pp.Word(pp.nums).set_parse_action(lambda t: int(t[0]))
        sub = pp.Forward()
        sub <<= sub + pp.Suppress(",") + integer | integer
        fld = pp.Word(pp.nums + ",").set_parse_action(reparse(lambda: sub, via))
        rec = pp.Forward()
        rec <<= rec + pp.Suppress(";") + pp.Group(fld) | pp.Group(fld)
        return dict(rec=rec, sub=sub)

    def lrwrap(via):  # a non-recursive Forward around the field; sub-grammar left-recursive
        integer = pp.Word(pp.nums).set_parse_action(lambda t: int(t[0]))
        sub = pp.Forward()
        sub <<= sub + pp.Suppress(",") + integer | integer
        rec = pp.Forward()
        rec <<= pp.QuotedString('"').set_parse_action(reparse(lambda: sub, via))
        return dict(rec=rec, sub=sub)

    def mutual(via):  # two mutually recursive rules + a left-recursive one; threads enter at DIFFERENT rules
        num = pp.Word(pp.nums)
        expr, stmt, block = pp.Forward(), pp.Forward(), pp.Forward()
        expr <<= expr + "+" + num | num
        stmt <<= pp.Keyword("do") + block | pp.Keyword("print") + expr
        block <<= pp.Group("{" + pp.ZeroOrMore(stmt) + "}")
        return dict(stmt=stmt, block=block, expr=expr)

    def mutual3(via):  # three rules reaching each other
        num = pp.Word(pp.nums)
        value, lst, dct = pp.Forward(), pp.Forward(), pp.Forward()
        value <<= lst | dct | num
        lst <<= pp.Group("[" + pp.ZeroOrMore(value) + "]")
        dct <<= pp.Group("{" + pp.ZeroOrMore(pp.Word(pp.alphas) + ":" + value) + "}")
        return dict(value=value, lst=lst, dct=dct)

    return {"lrrows": lrrows, "lrwrap": lrwrap, "mutual": mutual, "mutual3": mutual3}


# thread specs: (target grammar, top-level entry, input)
# roles: parse2 = both threads enter through parse_string; scan2 = both enter through the scan_string family;
#        twin = the outer grammar twice (equal / permuted inputs); three = three threads
THREADS = {
    "field": {
        "parse2": [("rec", "parse", '"1,2,3"'), ("sub", "parse", "4,5")],
        "scan2": [("rec", "search", 'x "1,2" "3"'), ("sub", "scan", "1,2 3")],
        "twin": [("rec", "parse", '"1,2,3"'), ("rec", "parse", '"1,2,3"')],
        "three": [("rec", "parse", '"1,2,3"'), ("rec", "parse", '"7,8"'), ("sub", "parse", "1,2,3")],
    },
    "rows": {
        "parse2": [("rec", "parse", "1,2;3"), ("sub", "parse", "3")],
        "scan2": [("rec", "scan", "1,2;3 4"), ("sub", "search", "1,2 3")],
        "twin": [("rec", "parse", "1,2;3"), ("rec", "parse", "3;1,2")],
        "three": [("rec", "parse", "1,2;3"), ("sub", "search", "1,2"), ("rec", "parse", "1,2;3")],
    },
    "cond": {
        "parse2": [("rec", "parse", "1,2?"), ("sub", "parse", "1,2")],
        "scan2": [("rec", "scan", "1,2? 3!"), ("sub", "transform", "3,4")],
        "twin": [("rec", "parse", "1,2?"), ("rec", "parse", "1,2!")],
        "three": [("rec", "parse", "1,2"), ("rec", "scan", "1,2? 3!"), ("sub", "parse", "3")],
    },
    "deep": {
        "parse2": [("rec", "parse", "'1,2;3'"), ("sub", "parse", "3")],
        "scan2": [("rec", "transform", "'1;2' x"), ("sub", "search", "3 4")],
        "twin": [("rec", "parse", "'1,2;3'"), ("rec", "parse", "'1,2;3'")],
        "three": [("rec", "parse", "'1;2'"), ("sub", "parse", "1"), ("rec", "parse", "'2;1'")],
    },
    # left-recursion mode.  same2 / same3: every thread parses the SAME input with the same grammar; when moreover
    # every entry reset_cache() precedes the first memo access the run is outside the region of the known finding
    # lr_mode_shared_memo and outcomes are compared.  Every other schedule / spec is explored for DEADLOCKS (and
    # lock order, trace validation); a differing outcome there is that known finding.
    "lrrows": {
        "same2": [("rec", "parse", "1,2;3")] * 2,
        "same3": [("rec", "parse", "1,2;3")] * 3,
        "mixed": [("rec", "parse", "1,2;3"), ("sub", "scan", "4,5")],
    },
    "lrwrap": {
        "same2": [("rec", "parse", '"1,2,3"')] * 2,
        "same3": [("rec", "parse", '"1,2,3"')] * 3,
        "mixed": [("rec", "search", 'x "1,2"'), ("sub", "parse", "4,5")],
    },
    # mutually recursive Forwards entered at DIFFERENT rules (no nested entry calls; `via` is unused): with one lock
    # per Forward the acquisition order would follow the grammar traversal
    "mutual": {
        "ends2": [("stmt", "parse", "do { print 1+2 }"), ("block", "parse", "{ do { print 3+4 } }")],
        "ends3": [("block", "parse", "{ print 1 }"), ("stmt", "parse", "do { do { } }"), ("expr", "parse", "1+2+3")],
        "same2": [("stmt", "parse", "do { print 1+2 }")] * 2,
    },
    "mutual3": {
        "ends2": [("lst", "parse", "[ 1 { a : 2 } ]"), ("dct", "parse", "{ b : [ 3 ] }")],
        "ends3": [("value", "parse", "[ { a : [ ] } ]"), ("dct", "parse", "{ c : [ 4 ] }"), ("lst", "parse", "[ 5 ]")],
    },
}

MODES = [("off",), ("packrat", 0), ("packrat", 2), ("packrat", 128), ("packrat", None)]


def is_marker(ev):
    return isinstance(ev, list) and ev and ev[0] in ("nbeg", "nend")


def strip_markers(trace):
    return [e for e in trace if not is_marker(e[1])]


def lock_prog(trace, tid):
    """the lock operations thread `tid` performed, in order"""
    return [Sym("prog")] + [ev for t, ev in trace if t == tid and isinstance(ev, str) and not isinstance(ev, list)
                            and ev[:3] in ("acq", "rel")]


class NestedCase:
    def __init__(self, C, pp, mode, gname, via, threads):
        """C: the c15 module (Case machinery is reused through it)"""
        self.C, self.pp, self.mode, self.gname, self.via = C, pp, tuple(mode), gname, via
        self.threads = [tuple(x) for x in threads]
        self.lr = mode[0] == "lr"
        g = (lr_grammars(pp) if self.lr else grammars(pp))[gname](via)
        self.g = g
        for e in g.values():
            e.streamline()
        self.I = S.Interner()
        self.fns = [C.mk_call(pp, g[target], entry, s) for target, entry, s in self.threads]
        self.inputs = [s for _, _, s in self.threads]
        self.serial, self.rows, self.learn_ok = None, None, True
        self.serial_progs = None

    def desc(self):
        return {"scenario": "nested", "mode": list(self.mode), "grammar": self.gname, "via": self.via,
                "threads": [list(x) for x in self.threads]}

    def driver_key(self, t):
        return [0, self.I.string(self.inputs[t]), t, 0]

    def learn(self):
        """each call alone: expected outcome, call-table rows (with `(entry key)` children), lock program"""
        self.serial, self.serial_progs, rows = [], [], {}

        def put(k, cached, ch, val):
            r = rows.setdefault(json.dumps(k), [k, cached, ch, val])
            if r[2] != ch:
                self.learn_ok = False

        for t, fn in enumerate(self.fns):
            with S.Session(self.pp, self.mode, self.I, exprs=self.g.values()) as ses:
                out = ses.run_serial(fn)
            self.serial.append(out)
            self.serial_progs.append(lock_prog(ses.trace, -1))
            dk = self.driver_key(t)
            stack = [[dk, [], "root"]]
            for _, ev in ses.trace:
                if not isinstance(ev, list):
                    continue
                if ev[0] == "cget":
                    stack[-1][1].append(ev[1])
                    if ev[2] == "none":
                        stack.append([ev[1], [], "cached"])
                elif ev[0] == "cput":
                    if stack[-1][2] != "cached" or stack[-1][0] != ev[1]:
                        self.learn_ok = False
                        break
                    k, ch, _ = stack.pop()
                    put(k, True, ch, ev[2])
                elif ev[0] == "nbeg":
                    nk = [0, ev[2], ev[1], 4 + ev[3]]
                    stack[-1][1].append([Sym("entry"), nk])
                    stack.append([nk, [], "nested"])
                elif ev[0] == "nend":
                    if stack[-1][2] != "nested":
                        self.learn_ok = False
                        break
                    k, ch, _ = stack.pop()
                    put(k, False, ch, ev[1])
            if len(stack) != 1:
                self.learn_ok = False
            put(dk, False, stack[0][1], self.I.val(str(out)))
        self.rows = list(rows.values())
        return self

    # the table-driven model interface of c15.Case
    def table_sexp(self):
        return [Sym("table")] + self.rows

    def roots_sexp(self):
        return [Sym("roots")] + [self.driver_key(t) for t in range(len(self.fns))]

    def line(self, cmd, gran, extra):
        sz, _ = self.C.mode_sexp(self.mode)
        return dumps(Sym(cmd)) + " " + " ".join(
            dumps(x) for x in (sz, self.table_sexp(), self.roots_sexp(), [Sym("gran"), Sym(gran)], extra))

    def forced(self, gran, sched=None, chooser=None):
        with S.Session(self.pp, self.mode, self.I, gran=gran, exprs=self.g.values()) as ses:
            outs, status = ses.run_controlled(self.fns, sched=sched, chooser=chooser)
        return ses, outs, status

    def impl_string(self, ses, outs, status):
        if status == "bad-sched":
            return "bad-sched"
        res = []
        for o in outs:
            if isinstance(o, tuple) and o and o[0] == "internal":
                res.append(Sym("crash"))
            elif isinstance(o, tuple):
                res.append(Sym("unfinished"))
            else:
                res.append([Sym("done"), self.I.val(str(o))])
        return dumps([Sym("ok"), self.C.strip_mclear(strip_markers(ses.trace)), res])

    def check_outcomes(self, ctx, outs, status, how, stats):
        return self.C.Case.check_outcomes(self, ctx, outs, status, how, stats)


def build(C, pp, case):
    return NestedCase(C, pp, case["mode"], case["grammar"], case["via"], case["threads"]).learn()


# ------------------------------------------------------------------------------------------------
# exploration of the real code's schedules
# ------------------------------------------------------------------------------------------------
def dfs_schedules(run, first_prefix, fixed, limit):
    """stateless depth-first search over the scheduler's choice points.  run(prefix) performs one controlled run
    (prefix, then always the lowest enabled thread) and returns (sched_done, enabled_log).  Choice points below
    index `fixed` are not branched on.  Yields nothing; `run` sees every schedule.  Returns (runs, exhausted)."""
    todo = [list(first_prefix)]
    n = 0
    while todo:
        if n >= limit:
            return n, False
        prefix = todo.pop()
        done, en_log = run(prefix)
        n += 1
        if done[:len(prefix)] != prefix:
            continue  # the prefix was not feasible (cannot happen for prefixes taken from enabled sets)
        new = []
        for i in range(max(len(prefix), fixed), len(done)):
            for alt in en_log[i]:
                if alt != done[i]:
                    new.append(done[:i] + [alt])
        todo.extend(reversed(new))
    return n, True


def placement_chooser(first, k, order):
    """thread `first` performs k scheduler steps; then the other threads run, in `order`, each as far as the code
    lets it; afterwards always the lowest enabled thread"""
    st = {"n": 0}

    def choose(en, ses):
        if st["n"] < k and first in en:
            st["n"] += 1
            return first
        st["n"] = k
        for t in order:
            if t != first and t in en:
                return t
        return en[0]

    return choose


def resets_first(n, gran):
    """left-recursion mode: every thread completes its entry reset_cache() before anything else"""
    per = {"region": 1, "lock": 2, "event": 4}[gran]
    return [t for t in range(n) for _ in range(per)]


def steps_alone(c, t, gran):
    with S.Session(c.pp, c.mode, c.I, gran=gran, exprs=c.g.values()) as ses:
        ses.run_controlled([c.fns[t]])
    return len(ses.sched_done)


SCAN_FAMILY = ("scan", "search", "transform")


def case_specs(ctx):
    """quick, per grammar: the four packrat sizes (shuffled by the seed) meet the four thread-spec roles - parse2 with
    a nested parse_string, scan2 with a nested call of the scan_string family, twin and three with any entry point -
    and mode off one role; left-recursion: every spec.  thorough: every role x every mode, two entry points each."""
    rng = ctx.subrng("nested-cases")
    thorough = ctx.tier == "thorough"
    out = []

    def vias_for(role, k):
        if role == "parse2":
            return (["parse"] + rng.sample(SCAN_FAMILY, 1))[:k]
        if role == "scan2":
            return rng.sample(SCAN_FAMILY, k)
        return rng.sample(VIAS, k)

    for gname in ("field", "rows", "cond", "deep"):
        specs = THREADS[gname]
        roles = list(specs)
        if thorough:
            for mode in MODES:
                for role in roles:
                    for via in vias_for(role, 2):
                        out.append((mode, gname, via, specs[role]))
            continue
        sizes = MODES[1:]
        rng.shuffle(sizes)
        for mode, role in zip(sizes, roles):
            out.append((mode, gname, vias_for(role, 1)[0], specs[role]))
        role = rng.choice(roles)
        out.append((MODES[0], gname, vias_for(role, 1)[0], specs[role]))
    for gname in ("lrrows", "lrwrap"):
        for role, th in THREADS[gname].items():
            for via in (rng.sample(VIAS, 2) if thorough else rng.sample(VIAS, 1)):
                out.append((("lr",), gname, via, th))
    for gname in ("mutual", "mutual3"):
        for role, th in THREADS[gname].items():
            out.append((("lr",), gname, "parse", th))
    return out


def leg_nested(ctx, C, pp, force_search=False):
    import time as _t
    t_start = _t.time()
    stats, recs, run_lines, impl, vlines, vrecs = {}, [], [], [], [], []
    lock_bad = []
    specs = case_specs(ctx)
    cases = [NestedCase(C, pp, *spec).learn() for spec in specs]
    for c in cases:
        if any(isinstance(o, tuple) for o in c.serial):
            ctx.fail_input("serial call raises an internal error", c.desc(), "ParseBaseException or result",
                           [str(o) for o in c.serial], theorem="(baseline)")
    dfs_limit = ctx.budget(24, 300)
    n_runs = 0
    lock_lines, lock_recs = [], []
    for c in cases:
        n = len(c.fns)
        lock_lines.append("locks-check " + " ".join(dumps(p) for p in c.serial_progs))
        lock_recs.append(dict(c.desc(), gran="serial"))
        modelled = (not c.lr) and c.learn_ok
        same = len(set(c.threads)) == 1

        def account(ses, outs, status, how, compare=True):
            """compare=False: a left-recursion run inside the region of the known finding lr_mode_shared_memo -
            only a deadlock counts; a differing outcome is reported under that finding's signature"""
            nonlocal n_runs
            n_runs += 1
            if status == "deadlock":
                how = dict(how, blocked=[f"thread {t} waits for {what} held by thread {h}"
                                         for t, what, h in ses.blocked])
            if compare or status == "deadlock":
                c.check_outcomes(ctx, outs, status, how, stats)
            elif status == "ok" and outs != c.serial:
                stats["known-lr-region"] = stats.get("known-lr-region", 0) + 1
                ctx.fail_input("left-recursion mode: concurrent outcome differs from serial outcome",
                               dict(c.desc(), **how), c.serial, [str(o) for o in outs],
                               theorem="PP.Threads.LR.lr_race_witness / lr_reset_race_witness", signature=C.SIG)
            else:
                stats["ok"] = stats.get("ok", 0) + 1
            rec = dict(c.desc(), **how)
            tr = strip_markers(ses.trace)
            if status == "ok":
                vlines.append(C.validate_line(c.mode, tr))
                vrecs.append(rec)
                lock_lines.append("locks-check " + " ".join(dumps(lock_prog(tr, t)) for t in range(n)))
                lock_recs.append(rec)
            if modelled and status != "deadlock":
                recs.append(rec)
                run_lines.append(c.line("threads-run", how["gran"], [Sym("sched")] + how["sched"]))
                impl.append(c.impl_string(ses, outs, status))

        # variants: (prefix that completes every entry reset_cache() first?, are outcomes compared?)
        if not c.lr:
            variants = [(False, True)]
        elif same:
            variants = [(True, True), (False, False)]
        else:
            variants = [(False, False)]
        for resets1st, compare in variants:
            # (a) all interleavings at lock-region granularity
            def run_region(prefix):
                ses, outs, status = c.forced("region", sched=list(prefix))
                account(ses, outs, status, {"gran": "region", "sched": list(ses.sched_done)}, compare)
                return list(ses.sched_done), list(ses.enabled_log)

            first = resets_first(n, "region") if resets1st else []
            if len(ctx.fail_inputs) < 3:
                _, exhausted = dfs_schedules(run_region, first, len(first), dfs_limit)
                key = "dfs-exhausted" if exhausted else "dfs-cut"
                stats[key] = stats.get(key, 0) + 1
            # (b) every placement of the other threads' entry relative to each lock operation of a first thread
            pre = resets_first(n, "lock") if resets1st else []
            firsts = range(n) if (ctx.tier == "thorough" or force_search) else [0]
            for f in firsts:
                if c.threads[f][0] == "sub":
                    continue
                total = steps_alone(c, f, "lock")
                orders = [list(range(n))] + ([list(reversed(range(n)))] if n > 2 else [])
                # quick: about 16 evenly spaced placements per first thread (search: 32, every first thread);
                # thorough: every one
                stride = 1 if ctx.tier == "thorough" else max(1, total // (32 if force_search else 16))
                for k in range(0, total + 1, stride):
                    for order in orders:
                        if len(ctx.fail_inputs) >= 3:
                            break
                        st = {"i": 0}
                        inner = placement_chooser(f, k, order)

                        def ch(en, ses, st=st, inner=inner, pre=pre):
                            if st["i"] < len(pre):  # every entry reset first
                                t = pre[st["i"]]
                                st["i"] += 1
                                if t in en:
                                    return t
                            return inner(en, ses)

                        ses, outs, status = c.forced("lock", chooser=ch)
                        account(ses, outs, status, {"gran": "lock", "sched": list(ses.sched_done),
                                                    "placement": [f, k, order]}, compare)
    ctx.notes.setdefault("leg_seconds", {})["nested_real_runs"] = round(_t.time() - t_start, 1)
    # the hypothesis of Locks.lock_order_no_deadlock, on every thread of every logged run
    lout = ctx.driver.run_sharded(lock_lines)
    n_lock_progs = len(lock_lines)
    for rec, lo in zip(lock_recs, lout):
        if lo != "ok":
            lock_bad.append((rec, lo))
    ctx.obligation(
        "nested entry calls: every thread's lock operations respect the order recursion_lock < packrat_cache_lock "
        "and are balanced (hypothesis of PP.Threads.Locks.lock_order_no_deadlock, instantiated by "
        "nested_entry_no_deadlock)", not lock_bad,
        f"{len(lock_bad)}/{n_lock_progs} runs; first: {json.dumps(lock_bad[0][0])[:300]} -> {lock_bad[0][1]}"
        if lock_bad else f"{n_lock_progs} runs")
    if run_lines:
        model = [C.strip_mclear_model(o) for o in ctx.driver.run_sharded(run_lines)]
        ctx.correspond("nested-forced-schedules", recs, run_lines, impl, model_outputs=model,
                       nontrivial=lambda c_, o: o.count("cclear") > len(c_["threads"]),
                       outcome_of=lambda c_, o: f"{c_['mode'][0]}-{c_['gran']}")
    if vlines:
        vout = ctx.driver.run_sharded(vlines)
        ctx.correspond("nested-trace-validation", vrecs, vlines, ["ok"] * len(vlines), model_outputs=vout,
                       outcome_of=lambda c_, o: f"{c_['mode'][0]}-{c_['gran']}")
    ctx.count_cases("oracle-nested-entry", n_runs, outcomes=stats,
                    distinct_keys=[f"{c.gname}|{c.via}|{c.mode}|{len(c.fns)}" for c in cases],
                    samples=[cases[0].desc()])
    return cases
