"""C12 — grammar objects have value semantics; operator sugar means what is documented.

proof:           lean/PPProofs/Props/C12.lean on the shared parse model (node table = object graph):
                 parse_rename / sim_parse_eq (two graphs related by an id-renaming that preserves every attribute the
                 parser reads parse identically: the semantic content of every "sugar builds the same structure as the
                 spelled-out form" equivalence and of copy()), frame (append-only construction never changes an existing
                 node), copy_equiv, and_flatten (the in-place rewrite done by streamline: nested And == flat And under
                 explicit, decidable flag hypotheses) with proved counter-witnesses where the hypotheses fail.
tie:             the node tables are EXTRACTED from the live objects built both ways (harness/gram.extract_multi); the
                 compiled Lean driver evaluates simCheck / streamCheck / flattenHyp on them (c12sim, c12stream, c12flat);
                 plus the usual model-vs-real correspondence of the parse model on the sugar programs.
search (oracle): on the real code: sugar vs spelled-out outcomes; nested vs flat And (where the driver says the flag
                 hypotheses hold); pools of shared expressions x random composition sequences x interleaved uses:
                 the behavioural fingerprint of EVERY pool member is the same whatever was composed / copied / named /
                 used (streamlined) in between, and a copy has the fingerprint of its original.
part C (harness/props/c12_hist.py): histories in which an IN-PLACE operation (ignore, leave_whitespace,
                 ignore_whitespace, set_whitespace_chars, add_parse_action, set_name) is applied to a composite / copy
                 AFTER composition.  proof: heap model (elements + identity of their ignoreExprs list objects) with
                 copyOp / ignorePush / wsOp transcribed from core.py; ignore_frame / ws_frame / copy_frame (expressions
                 whose object graph is disjoint from the operation's footprint parse identically, all inputs) under the
                 invariant "every element owns its list object" (kept by copyOp_spec / wsOp_spec / ignore_inv).
                 tie: every real copy() / ignore() / leave_whitespace() / ignore_whitespace() call of a history is
                 compared with the model operation on the heap extracted before the call (driver: heapMatch,
                 heapMatch_parse_eq), and invCheck is evaluated on the live heaps.  oracle: reference build (without the
                 in-place statements) vs test build, every variable outside the footprints, on inputs with leading /
                 interior blanks and comment text.
"""
from __future__ import annotations

import json
import random

from .. import common, corr_parse, gen, gram
from ..sexp import Sym, dumps

META = dict(
    text="Lean theorems (PPProofs/Props/C12.lean) on the shared parse model, for ALL inputs, locations, flags, fuels and "
         "sub-expression behaviours. FULL: parse_rename + simCheck_sound => sim_parse_eq (two object graphs related by an "
         "id renaming that preserves every attribute the parser reads parse identically; with the driver-checked tie that "
         "the live objects built by the sugar and by the spelled-out form have such graphs after streamline, this is "
         "expr*n, expr[m,n], expr[...]/[0,...]/[1,...]/[n,...], expr[...:stop], expr|'', a+...+b, (a+b)+c == a+(b+c) == "
         "And([a,b,c]) for operands that are not themselves unnamed Ands, and copy()/expr()); frame (appending nodes that "
         "refer only to existing ids - what every operator, copy() and naming does - never changes the parse of an "
         "existing id); copy_equiv (a field-wise copy of a node parses like the original). PARTIAL: and_flatten_partial "
         "(streamline's in-place flattening: And[pre..,And[b,ns..],post..] == And[pre..,b,ns..,post..] under the "
         "decidable flag condition flattenHyp, for any parse function that is a fixed point of _parseNoCache at the two "
         "nodes; NOT lifted to parse g s fuel of the whole rewritten table); and_flatten_fails_lineStart / "
         "_errorStop: proved witnesses that the equality is FALSE outside flattenHyp (replayed on the real code, "
         "registered findings). Not in any theorem, decided by the real-code oracle only: results names (as_dict), Each "
         "(&), Or/Each flattening, value semantics of the real mutable objects (pool fingerprints under three use "
         "schedules). Excluded / tracked: documented mutators (ignore(), +=, |=, set_parse_action on the object, "
         "parse_with_tabs, transform_string's permanent keepTabs), IndentedBlock's action injection in And.streamline, "
         "and the regions of the registered findings (known_findings.json). "
         "IN-PLACE OPERATIONS AFTER COMPOSITION (heap model PPModel/Mod/HeapOps.lean: elements + identity of their "
         "ignoreExprs list objects; copy(), ignore(<Suppress>), leave_whitespace()/ignore_whitespace() transcribed), FULL, "
         "all inputs/locations/flags/fuels: agree_on_closed (tables that agree on a set closed under 'refers to' parse "
         "identically there), ignore_frame (x.ignore(s) does not change any expression whose object graph is disjoint "
         "from the elements reachable from x, provided no two elements hold the same list object), ws_frame "
         "(leave_whitespace/ignore_whitespace change nothing that does not contain x), copy_frame, and the invariant: "
         "copyOp_spec / wsOp_spec / ignore_inv keep 'every element owns its list object' and only allocate; "
         "invCheck_sound, heapMatch_parse_eq (what the driver's verdicts mean). alias_breaks_ignore_frame: the invariant "
         "is needed (proved witness); enhance_copy_shares_child: proved witness that a copy of a Group/Opt/Forward/... "
         "shares its contained expression, so ignore() on the copy changes the original (replayed on the real code, "
         "registered finding) - which is why ignore_frame asks for disjoint object graphs. Not modelled: SkipTo.ignore "
         "(private ignorer), copy of an unassigned Forward, Each, set_whitespace_chars/add_parse_action/set_name "
         "(oracle only).",
    note="Trusted: Lean kernel; axioms propext/Classical.choice/Quot.sound; the shared parse model (validated "
         "differentially every run); gram.extract_multi reading the attributes of the live objects; the Python pairing "
         "is only a candidate - simCheck/streamCheck/flattenHyp are evaluated by the compiled Lean driver. The Lean side "
         "proves value semantics for the MODEL of construction (append-only tables) and for the streamline rewrite; "
         "that the real operators never mutate an operand is decided by the fingerprint oracle. The heap "
         "operations are hand transcriptions of core.py (copy 554-560/4031-4035, ignore 1836-1845/3964-3974/4749-4755/"
         "5890-5895, leave_whitespace 1780-1799/3939-3962/4731-4747/5764-5770), tied on every run: each real call of the "
         "generated histories is replayed by the compiled model on the heap extracted from the live objects "
         "(gram.extract_multi + id() of the ignoreExprs lists) and compared (heapMatch); `in` is identity in the model "
         "and ParserElement.__eq__ in the code (histories with two equal ignorables are not tied); the allocation "
         "Suppress(other.copy()) inside ignore() is taken from the live objects.",
    technique="Lean 4 proofs (renaming/simulation invariance of the parse model, frame, copy, flattening lemma + "
              "counter-witnesses; heap model of copy/ignore/leave_whitespace with frame theorems and an aliasing "
              "invariant) + driver-checked structural tie on extracted object graphs and heaps + differential "
              "fingerprint oracles on the real code (use schedules; histories with in-place operations)",
    design="§5 C12",
)

THEOREMS = [
    "PP.Parse.parse_rename",
    "PP.Parse.simCheck_sound",
    "PP.Parse.closedCheck_sound",
    "PP.Parse.sim_parse_eq",
    "PP.Parse.frame",
    "PP.Parse.copy_equiv",
    "PP.Parse.and_flatten_partial",
    "PP.Parse.and_flatten_head_impl",
    "PP.Parse.and_flatten_inner_step",
    "PP.Parse.andRest_splice",
    "PP.Parse.and_flatten_fails_lineStart",
    "PP.Parse.and_flatten_fails_errorStop",
    # in-place operations after composition: the object graph as a heap (PPModel/Mod/HeapOps.lean)
    "PP.Heap.agree_on_closed",
    "PP.Heap.ignore_frame",
    "PP.Heap.ws_frame",
    "PP.Heap.copy_frame",
    "PP.Heap.ignorePush_frame",
    "PP.Heap.ignore_inv",
    "PP.Heap.copyOp_spec",
    "PP.Heap.wsOp_spec",
    "PP.Heap.invCheck_sound",
    "PP.Heap.heapMatch_parse_eq",
    "PP.Heap.alias_breaks_ignore_frame",
    "PP.Heap.enhance_copy_shares_child",
]

ENTRIES = [("parse", ()), ("parseAll", ()), ("scan", (100, True, False))]
FIXED_INPUTS = ["", " ", "a", "ab", "a b", "a  b a", "ab,ab", "a\nb", " a\tb", "aab ba", "x a", "a x b", "b a\n\nab"]


# ---------------------------------------------------------------------------------------------------
# observables
# ---------------------------------------------------------------------------------------------------
def _js(x):
    return json.loads(json.dumps(x, default=repr))


def outcome(pp, e, s, names=True):
    """what the property calls 'how an expression parses': tokens (+ names) or exception class and location"""
    try:
        r = e.parse_string(s)
        o = ["ok", _js(r.as_list())]
        if names:
            o.append(_js(r.as_dict()))
        return o
    except pp.ParseBaseException as ex:
        return ["exc", type(ex).__name__, ex.loc]
    except RecursionError:
        return ["internal", "RecursionError"]
    except Exception as ex:  # noqa
        return ["internal", type(ex).__name__]


def scan_outcome(pp, e, s, names=True):
    out = []
    try:
        for t, a, b in e.scan_string(s):
            out.append([_js(t.as_list()), a, b] + ([_js(t.as_dict())] if names else []))
    except pp.ParseBaseException as ex:
        return ["scan-exc", out, type(ex).__name__, ex.loc]
    except RecursionError:
        return ["internal", "RecursionError"]
    except Exception as ex:  # noqa
        return ["internal", type(ex).__name__]
    return ["scan", out]


def fingerprint(pp, e, inputs, names=True):
    """list of outcomes, or None when the expression cannot be fingerprinted (would loop / timed out)"""
    try:
        if not e.streamlined:
            e.streamline()
        if corr_parse.nullable_rep(pp, e):
            return None
    except RecursionError:
        return None
    except Exception as ex:  # noqa  (e.g. a dangling `...`)
        return [["internal-streamline", type(ex).__name__]]
    fp = []
    for s in inputs:
        try:
            fp.append(common.with_alarm(1.0, outcome, pp, e, s, names))
            fp.append(common.with_alarm(1.0, scan_outcome, pp, e, s, names))
        except common.CaseTimeout:
            return None
    return fp


# ---------------------------------------------------------------------------------------------------
# node tables (S-expression form produced by gram.extract_multi)
# ---------------------------------------------------------------------------------------------------
def _is_none(x):
    return isinstance(x, Sym) and str(x) == "None"


def kind_child_pos(kind):
    """positions (within kind[1:]) holding node ids, mirroring PP.Parse.Kind.children"""
    k = str(kind[0])
    a = kind[1:]
    if k in ("and", "matchFirst", "or"):
        return list(range(len(a)))
    if k in ("opt", "notAny", "followedBy", "located", "group", "suppress", "combine", "enhance"):
        return [0]
    if k == "many":
        return [0] + ([1] if not _is_none(a[1]) else [])
    if k == "skipTo":
        return [0] + [i for i in (2, 3) if not _is_none(a[i])]
    if k == "forward":
        return [0] if not _is_none(a[0]) else []
    return []


def node_children(node):
    kind = node[0]
    return [kind[1 + i] for i in kind_child_pos(kind)] + list(node[5])


def renumber(node, f):
    kind = list(node[0])
    for i in kind_child_pos(kind):
        kind[1 + i] = f(kind[1 + i])
    out = list(node)
    out[0] = kind
    out[5] = [f(x) for x in node[5]]
    return out


def _pairing1(nodes, i0, j0):
    rho, todo, conflict = {}, [(i0, j0)], False
    while todo:
        i, j = todo.pop()
        if i in rho:
            conflict = conflict or rho[i] != j
            continue
        rho[i] = j
        ci, cj = node_children(nodes[i]), node_children(nodes[j])
        todo.extend(zip(ci, cj))
    return [[i, j] for i, j in sorted(rho.items())], conflict


def pairing(nodes, i0, j0):
    """candidate simulation (a FUNCTION on ids, possibly many-to-one: copies map to their original): pair the graphs
    reachable from i0 / j0 position by position, in whichever direction is functional. Verified by the driver."""
    p, conflict = _pairing1(nodes, i0, j0)
    if conflict:
        q, c2 = _pairing1(nodes, j0, i0)
        if not c2:
            return q
    return p


# ---------------------------------------------------------------------------------------------------
# PART A: sugar forms.  Each form: statements building `S` (sugar) and `X` (spelled out) from operands.
# ---------------------------------------------------------------------------------------------------
def _chain_plus(vars_, prefix):
    """v0 + v1 + v2 ... as a statement list; returns (statements, final var)"""
    st, cur = [], vars_[0]
    for k, v in enumerate(vars_[1:]):
        nv = f"{prefix}{k}"
        st.append([nv, "+", cur, v])
        cur = nv
    return st, cur


def _opt_chain(a, k, prefix):
    """Opt(a + Opt(a + ... Opt(a)))  with k optional copies (what makeOptionalList builds)"""
    st = [[f"{prefix}o1", "Opt", a]]
    cur = f"{prefix}o1"
    for i in range(2, k + 1):
        st.append([f"{prefix}s{i}", "+", a, cur])
        st.append([f"{prefix}o{i}", "Opt", f"{prefix}s{i}"])
        cur = f"{prefix}o{i}"
    return st, cur


def sugar_forms(rng, a, b, c, stop):
    """(name, statements) list; every entry defines variables S and X. `a` is non-nullable (repetition body)."""
    forms = []
    n = rng.choice([2, 3, 4])
    st, cur = _chain_plus([a] * n, "x")
    forms.append((f"mul_n:{n}", [["S", "*", a, n], ["X", "And", [a] * n]]))
    forms.append((f"mul_n_plus:{n}", [["S", "*", a, n]] + st + [["X", "alias", cur]]))
    m = rng.choice([0, 1, 2, 3])
    k = rng.choice([1, 2, 3])
    ost, ocur = _opt_chain(a, k, "y")
    if m == 0:
        spelled = ost + [["X", "alias", ocur]]
    else:
        cst, ccur = _chain_plus([a] * m + [ocur], "z")
        spelled = ost + cst + [["X", "alias", ccur]]
    forms.append((f"getitem_m_n:{m},{m + k}", [["S", "[]", a, [m, m + k]]] + spelled))
    forms.append(("star:[...]", [["S", "[...]", a], ["X", "ZeroOrMore", a]]))
    forms.append(("star:[0,...]", [["S", "[]", a, [0, None]], ["X", "ZeroOrMore", a]]))
    forms.append(("plus:[1,...]", [["S", "[]", a, [1, None]], ["X", "OneOrMore", a]]))
    n2 = rng.choice([2, 3])
    forms.append((f"n_or_more:{n2}", [["S", "[]", a, [n2, None]], ["t0", "*", a, n2], ["t1", "ZeroOrMore", a], ["X", "+", "t0", "t1"]]))
    forms.append(("stop_on_slice:[...:stop]", [["S", "[:]", a, None, stop], ["X", "ZeroOrMore", a, stop]]))
    forms.append(("stop_on_slice:[0,...:stop]", [["S", "[:]", a, 0, stop], ["X", "ZeroOrMore", a, stop]]))
    forms.append(("stop_on_slice:[1,...:stop]", [["S", "[:]", a, 1, stop], ["X", "OneOrMore", a, stop]]))
    forms.append(("or_empty", [["S", "|''", a], ["X", "Opt", a]]))
    forms.append(("ellipsis", [["S", "...", b, c], ["k0", "SkipTo", c], ["k1", "name", "k0", "_skipped*"],
                               ["k2", "+", b, "k1"], ["X", "+", "k2", c]]))
    forms.append(("ellipsis_AndL", [["S", "AndL", [b, None, c]], ["k0", "SkipTo", c], ["k1", "name", "k0", "_skipped*"],
                                    ["X", "And", [b, "k1", c]]]))
    forms.append(("and_assoc:(ab)c~a(bc)", [["p0", "+", a, b], ["S", "+", "p0", c], ["q0", "+", b, c], ["X", "+", a, "q0"]]))
    forms.append(("and_assoc:(ab)c~And", [["p0", "+", a, b], ["S", "+", "p0", c], ["X", "And", [a, b, c]]]))
    forms.append(("and_assoc:a(bc)~And", [["q0", "+", b, c], ["S", "+", a, "q0"], ["X", "And", [a, b, c]]]))
    forms.append(("copy", [["S", "copy", b], ["X", "+", b, c], ["X", "Group", b], ["X", "copy", b]][:1] + [["X0", "Group", b], ["X", "call", b]]))
    return forms


def base_program(rng, cfg_kw=None):
    """a pool program from harness/gen.py; returns (ProgGen, prog)"""
    kw = dict(n_leaves=4, n_comp=4, forwards=1, ignore=0.0, set_name=0.05, actions=0.1)
    kw.update(cfg_kw or {})
    pg = gen.ProgGen(rng, gen.Cfg(**kw))
    prog, root = pg.generate()
    return pg, list(prog), root


def sugar_job(job):
    """worker. job: prog (incl. S and X), form, inputs. returns dict"""
    pp = common.import_pyparsing()
    out = {"form": job["form"], "n": 0, "mism": [], "line": None, "skip": None}
    try:
        b = gram.build(pp, job["prog"])
        S, X = b.env["S"], b.env["X"]
    except Exception as ex:  # constructor refused: not a grammar (e.g. And ending in ...)
        out["skip"] = f"build:{type(ex).__name__}"
        return out
    try:
        gram.prepare(b, "S")
        gram.prepare(b, "X")
        if corr_parse.nullable_rep(pp, S) or corr_parse.nullable_rep(pp, X):
            out["skip"] = "nullable-repetition"
            return out
    except RecursionError:
        out["skip"] = "recursion"
        return out
    if "~And" in job["form"] or job["form"].startswith(("mul_n_plus", "getitem_m_n")):
        # And([a, b, c]) / And([a]*n) is never flattened by streamline (only 2-element Ands are), a chain of + is: with
        # an operand that is itself a flattenable And the two differ exactly as nested-vs-flat And do (registered
        # finding nested_and_differs_from_flat; equality under flattenHyp is the business of flat_job)
        ops = job.get("operands") or []
        for v in (ops[:3] if "~And" in job["form"] else ops[:1]):
            o = b.env[v]
            if isinstance(o, pp.And) and not o.parseAction and o.resultsName is None:
                out["skip"] = "region:nested_and_differs_from_flat"
                return out
    # structural tie: one table holding both graphs, candidate pairing, checked by the Lean driver
    try:
        nodes, (ri, rj), _, _ = gram.extract_multi(b, [S, X])
        pairs = pairing(nodes, ri, rj)
        out["line"] = dumps([Sym("c12sim"), nodes, nodes, pairs])[1:-1]
        out["n_nodes"] = len(nodes)
    except gram.Unsupported as ex:
        out["unsupported"] = str(ex)
    # oracle on the real code: same outcomes (tokens, names | exception class, location)
    for s in job["inputs"]:
        try:
            o1 = common.with_alarm(1.5, lambda: [outcome(pp, S, s), scan_outcome(pp, S, s)])
            o2 = common.with_alarm(1.5, lambda: [outcome(pp, X, s), scan_outcome(pp, X, s)])
        except common.CaseTimeout:
            continue
        out["n"] += 1
        if o1 != o2:
            out["mism"].append({"prog": job["prog"], "form": job["form"], "input": s, "sugar": o1, "spelled": o2,
                                "operands": job.get("operands")})
    return out


def gen_sugar_jobs(ctx, n_pools, tag="sugar"):
    jobs = []
    for i in range(n_pools):
        rng = random.Random(f"C12-{ctx.seed}-{tag}-{i}")
        pg, prog, root = base_program(rng)
        a = pg.pick(nonnull=True)
        b, c = pg.pick(), pg.pick()
        stop = pg.pick()
        prog = list(pg.prog)
        # the Forward assignments of gen.py come last in pg.prog only if no new leaf was created after: re-order
        fw = [st for st in prog if st[1] == "<<="]
        prog = [st for st in prog if st[1] != "<<="] + fw
        inputs = gen.inputs_for(rng, pg, a, 3) + gen.inputs_for(rng, pg, b, 2)
        for name, sts in sugar_forms(rng, a, b, c, stop):
            ins = list(inputs)
            if name.startswith(("ellipsis", "and_assoc")):
                ins += [pg.sample(b) + " " + rng.choice(["", "x ", "ab "]) + pg.sample(c), pg.sample(a) + " " + pg.sample(b) + " " + pg.sample(c)]
            else:
                ins += [" ".join(pg.sample(a) for _ in range(rng.randint(1, 4))) + rng.choice(["", " " + pg.sample(stop)])]
            jobs.append(dict(prog=prog + sts, form=name, inputs=list(dict.fromkeys(ins + FIXED_INPUTS[:6])), operands=[a, b, c, stop]))
    return jobs


def run_sugar(ctx, jobs, stream="sugar"):
    res = common.pmap(sugar_job, jobs)
    lines, idx = [], []
    for k, r in enumerate(res):
        if r["line"]:
            lines.append(r["line"])
            idx.append(k)
    verdicts = ctx.driver.run_sharded(lines) if lines else []
    forms, bad_shape = {}, []
    for k, v in zip(idx, verdicts):
        f = jobs[k]["form"].split(":")[0]
        forms.setdefault(f, {"T": 0, "F": 0})
        ok = v == "(sim T T T)"
        forms[f]["T" if ok else "F"] += 1
        if not ok:
            bad_shape.append({"form": jobs[k]["form"], "prog": jobs[k]["prog"], "driver": v})
    n = sum(r["n"] for r in res)
    mism = [m for r in res for m in r["mism"]]
    skips = {}
    for r in res:
        if r["skip"]:
            skips[r["skip"]] = skips.get(r["skip"], 0) + 1
    ctx.count_cases("oracle:" + stream, n, distinct_keys=[json.dumps([j["prog"], j["form"]]) for j in jobs],
                    outcomes={"inputs": n, "mismatch": len(mism)},
                    samples=[{"form": jobs[0]["form"], "prog": jobs[0]["prog"], "input": jobs[0]["inputs"][0]}] if jobs else [])
    st = ctx.cov["streams"].setdefault("tie:" + stream + "-shape", {"cases": 0, "diffs": 0, "outcomes": {}})
    st["cases"] += len(lines)
    st["diffs"] += len(bad_shape)
    st["per_form"] = forms
    st["skipped"] = skips
    ctx.cov["evaluations"] += len(lines)
    ctx.cov["traces_validated_against_impl"] += len(lines)
    ctx.obligation("sugar and spelled-out forms build graphs related by a driver-checked simulation (simCheck) [%d tables]" % len(lines),
                   not bad_shape, json.dumps(bad_shape[:2])[:1500])
    seen = set()
    for m in mism:
        f = m["form"].split(":")[0]
        if f in seen or len(seen) >= 3:
            continue
        seen.add(f)
        ctx.fail_input("sugar form parses differently from its spelled-out form",
                       {"prog": m["prog"], "form": m["form"], "input": m["input"], "kind": "sugar", "operands": m.get("operands")},
                       m["spelled"], m["sugar"], theorem="PP.Parse.sim_parse_eq (" + m["form"] + ")",
                       how="harness.props.c12.sugar_job")
    return bad_shape, mism


# ---------------------------------------------------------------------------------------------------
# PART A': the streamline rewrite (pre/post tables of the same objects) and nested-vs-flat And
# ---------------------------------------------------------------------------------------------------
def stream_job(job):
    """worker: r = x + y (children streamlined first); table before and after r.streamline() in one id space"""
    pp = common.import_pyparsing()
    try:
        b = gram.build(pp, job["prog"])
        r = b.env["R"]
        for e in r.exprs:
            e.streamline()
        pre, (ri,), ids_pre, _ = gram.extract_multi(b, [r])
        r.streamline()
        post, _, ids_post, order_post = gram.extract_multi(b, [r])
    except gram.Unsupported as ex:
        return {"skip": "unsupported"}
    except Exception as ex:  # noqa
        return {"skip": f"build:{type(ex).__name__}"}
    back = {k: ids_pre.get(id(o)) for k, o in enumerate(order_post)}
    if any(v is None for v in back.values()):
        return {"skip": "new-object-after-streamline"}
    table = [list(nd) for nd in pre]
    for k, nd in enumerate(post):
        table[back[k]] = renumber(nd, lambda x: back[x])
    return {"line": dumps([Sym("c12stream"), ri, pre, table])[1:-1]}


def flat_job(job):
    """worker: N = And[a, X, d] (never flattened: 3 elements) vs F = And[a, b, c, d]; X = b + c"""
    pp = common.import_pyparsing()
    out = {"n": 0, "mism": [], "line": None}
    try:
        b = gram.build(pp, job["prog"])
        N = gram.prepare(b, "N")
        X = b.env["XN"]
        if not (isinstance(X, pp.And) and X.exprs and len(N.exprs) >= 3):
            return out
        pos = [k for k, e in enumerate(N.exprs) if e is X][0]
        # the flat sequence of the theorem: N's own list with X replaced by X's (streamlined) list
        # = { N with exprs := flat list } (a shallow copy: same flags as N, as in the theorem)
        import copy as _copy
        F = _copy.copy(N)
        F.exprs = list(N.exprs[:pos]) + list(X.exprs) + list(N.exprs[pos + 1:])
        F._defaultName = None
        if corr_parse.nullable_rep(pp, N) or corr_parse.nullable_rep(pp, F):
            return out
        nodes, (ri, rj), ids, _ = gram.extract_multi(b, [N, F])
        kids = [ids[id(e)] for e in N.exprs]
        out["line"] = dumps([Sym("c12flat"), nodes, kids[:pos], kids[pos], kids[pos + 1:]])[1:-1]
    except gram.Unsupported:
        return out
    except Exception:  # noqa
        return out
    for s in job["inputs"]:
        try:
            o1 = common.with_alarm(1.5, lambda: [outcome(pp, N, s, names=False), scan_outcome(pp, N, s, names=False)])
            o2 = common.with_alarm(1.5, lambda: [outcome(pp, F, s, names=False), scan_outcome(pp, F, s, names=False)])
        except common.CaseTimeout:
            continue
        out["n"] += 1
        if o1 != o2:
            out["mism"].append({"prog": job["prog"], "input": s, "nested": o1, "flat": o2})
    return out


WITNESS_NESTED = dict(prog=[["a", "Literal", "a"], ["ls", "LineStart"], ["b", "Literal", "b"], ["c", "Literal", "c"],
                            ["XN", "+", "ls", "b"], ["N", "And", ["a", "XN", "c"]]],
                      inputs=["a\nb c"])
# And([x - y, b, c]) vs (x - y) + b + c: the error stop guards only the nested part
WITNESS_NESTED_STOP = dict(prog=[["x", "Literal", "x"], ["y", "Literal", "y"], ["b", "Literal", "b"], ["c", "Literal", "c"],
                                 ["XN", "-", "x", "y"], ["N", "And", ["XN", "b", "c"]]],
                           inputs=["x y b d"])


def gen_flat_jobs(ctx, n):
    jobs = []
    for i in range(n):
        rng = random.Random(f"C12-{ctx.seed}-flat-{i}")
        pg, prog, root = base_program(rng, dict(actions=0.0))
        a, b, c, d = pg.pick(), pg.pick(), pg.pick(), pg.pick()
        prog = list(pg.prog)
        fw = [st for st in prog if st[1] == "<<="]
        prog = [st for st in prog if st[1] != "<<="] + fw
        xn = [["XN", "+", b, c]] if rng.random() < 0.7 else [["XN", "And", [b, c, d]]]
        inner = [b, c] if xn[0][1] == "+" else [b, c, d]
        shape = rng.choice(["mid", "head", "tail"])
        if shape == "mid":
            outer_n, outer_f = [a, "XN", d], [a] + inner + [d]
        elif shape == "head":
            outer_n, outer_f = ["XN", d, a], inner + [d, a]
        else:
            outer_n, outer_f = [a, d, "XN"], [a, d] + inner
        sts = xn + [["N", "And", outer_n]]
        seq = " ".join if rng.random() < 0.5 else "\n".join
        inputs = [seq(pg.sample(v) for v in outer_f) for _ in range(3)] + [rng.choice([" ", "\n", ""]).join(pg.sample(v) for v in outer_f)]
        inputs += [gen.mutate(rng, inputs[0])]
        jobs.append(dict(prog=prog + sts, inputs=list(dict.fromkeys(inputs)), shape=shape))
    return jobs


def run_flatten(ctx, n_stream, n_flat):
    # (1) the real streamline step == the model's table transformation
    jobs = []
    for i in range(n_stream):
        rng = random.Random(f"C12-{ctx.seed}-stream-{i}")
        pg, prog, root = base_program(rng, dict(comp_kinds=[("+", 8), ("-", 3), ("|", 5), ("And3", 2), ("MatchFirst3", 1), ("Group", 1), ("Opt", 1), ("copy", 1)]))
        x, y = pg.pick(), pg.pick()
        prog = list(pg.prog)
        fw = [st for st in prog if st[1] == "<<="]
        prog = [st for st in prog if st[1] != "<<="] + fw
        jobs.append(dict(prog=prog + [["R", rng.choice(["+", "+", "|"]), x, y]]))
    res = common.pmap(stream_job, jobs)
    lines = [r["line"] for r in res if "line" in r]
    verd = ctx.driver.run_sharded(lines) if lines else []
    hist = {}
    for v in verd:
        hist[v] = hist.get(v, 0) + 1
    bad = [v for v in verd if not v.startswith("(stream T")]
    st = ctx.cov["streams"].setdefault("tie:streamline-step", {"cases": 0, "diffs": 0, "outcomes": {}})
    st["cases"] += len(lines)
    st["diffs"] += len(bad)
    st["outcomes"] = hist
    ctx.cov["evaluations"] += len(lines)
    ctx.cov["traces_validated_against_impl"] += len(lines)
    ctx.obligation("the real ParseExpression.streamline flattening == streamlineAnd/streamlineMF on the extracted table [%d tables]" % len(lines),
                   not bad, json.dumps(hist)[:300])
    # (2) nested vs flat on the real code where the driver says flattenHyp holds on the REAL flags
    fj = [WITNESS_NESTED, WITNESS_NESTED_STOP] + gen_flat_jobs(ctx, n_flat)
    res = common.pmap(flat_job, fj)
    idx = [k for k, r in enumerate(res) if r["line"]]
    verd = ctx.driver.run_sharded([res[k]["line"] for k in idx]) if idx else []
    n, in_hyp, out_hyp, out_diff = 0, 0, 0, 0
    for k, v in zip(idx, verd):
        r = res[k]
        n += r["n"]
        if v == "(flat T)":
            in_hyp += 1
            for m in r["mism"][:1]:
                ctx.fail_input("nested And parses differently from the flat And although the flag hypotheses hold",
                               {"prog": m["prog"], "input": m["input"], "kind": "flat"}, m["flat"], m["nested"],
                               theorem="PP.Parse.and_flatten_inner / and_flatten_head", how="harness.props.c12.flat_job")
        elif v == "(flat F)":
            out_hyp += 1
            if r["mism"]:
                out_diff += 1
                if k < 2:  # the registered witnesses
                    m = r["mism"][0]
                    ctx.fail_input("nested And != flat And (hypotheses of and_flatten do not hold: %s)" % ("LineStart head", "_ErrorStop inside")[k],
                                   {"prog": m["prog"], "input": m["input"], "kind": "flat-witness"}, m["flat"], m["nested"],
                                   theorem="PP.Parse.and_flatten_fails_lineStart / and_flatten_fails_errorStop",
                                   signature="nested_and_differs_from_flat", how="harness.props.c12.flat_job")
    ctx.count_cases("oracle:nested-vs-flat-And", n, distinct_keys=[json.dumps(j["prog"]) for j in fj],
                    outcomes={"hyp-holds": in_hyp, "hyp-fails(region of the registered finding)": out_hyp, "hyp-fails-and-differs": out_diff},
                    samples=[fj[1]] if len(fj) > 1 else [])


# ---------------------------------------------------------------------------------------------------
# PART B: pools, composition sequences, fingerprints
# ---------------------------------------------------------------------------------------------------
PURE_OPS = [("+", 8), ("-", 2), ("|", 6), ("^", 3), ("&", 2), ("~", 2), ("*", 3), ("[]", 3), ("[...]", 2), ("[:]", 2),
            ("...", 2), ("copy", 4), ("call", 3), ("name", 4), ("set_results_name", 2), ("Opt", 2), ("Group", 2),
            ("ZeroOrMoreStop", 2), ("SkipToFail", 1), ("And", 2), ("lw", 2), ("iw", 1), ("Suppress", 1), ("|''", 1),
            ("FollowedBy", 1), ("Combine", 1), ("Located", 1), ("DelimitedList", 1)]


def _flat(x):
    if isinstance(x, (list, tuple)):
        return [z for y in x for z in _flat(y)]
    if isinstance(x, dict):
        return [z for y in x.values() for z in _flat(y)]
    return [x]


def compose_steps(rng, pg, n_steps):
    """pure composition statements over the pool of `pg` (symbolic); returns (statements, copies, targets)
    copies: (new var, original var, named?) ; targets: vars used in positions that are never streamlined"""
    I, sts, copies, targets = pg.info, [], [], []
    pool = list(pg.pool)
    nullable = {v: (I[v].nullable if v in I and I[v] is not None else True) for v in pool}
    cnt = [0]
    has_each = set()   # region of the registered finding each_copy_keeps_cached_groups: never copied / lw'ed

    def fresh():
        cnt[0] += 1
        return f"m{cnt[0]}"

    def pick(nonnull=False):
        for _ in range(20):
            v = rng.choice(pool[-10:] if rng.random() < 0.5 else pool)
            if not (nonnull and nullable.get(v, True)):
                return v
        v = fresh()
        sts.append([v, "Literal", "a"])
        pool.append(v)
        nullable[v] = False
        return v

    def add(st, nul):
        sts.append(st)
        pool.append(st[0])
        nullable[st[0]] = nul
        if st[1] == "&" or any(isinstance(x, str) and x in has_each for x in _flat(st[2:])):
            has_each.add(st[0])
        return st[0]

    def pick_no_each():
        for _ in range(30):
            v = pick()
            if v not in has_each:
                return v
        v = fresh()
        sts.append([v, "Literal", "b"])
        pool.append(v)
        nullable[v] = False
        return v

    for _ in range(n_steps):
        op = gen._weighted(rng, PURE_OPS)
        v = fresh()
        if op in ("+", "-", "|", "^", "&"):
            a, b = pick(), pick()
            if op == "&":
                a, b = pick(nonnull=True), pick(nonnull=True)
            nul = (nullable[a] and nullable[b]) if op in ("+", "-", "&") else (nullable[a] or nullable[b])
            add([v, op, a, b], nul)
        elif op == "~":
            add([v, "~", pick()], True)
        elif op == "*":
            a = pick()
            add([v, "*", a, rng.choice([1, 2, 3])], nullable[a])
        elif op == "[]":
            a = pick(nonnull=True)
            m = rng.choice([0, 1, 2])
            add([v, "[]", a, [m, rng.choice([None, m + 1, m + 2])]], m == 0)
        elif op == "[...]":
            add([v, "[...]", pick(nonnull=True)], True)
        elif op == "[:]":
            a, s = pick(nonnull=True), pick()
            targets.append(s)
            m = rng.choice([None, 0, 1])
            add([v, "[:]", a, m, s], m != 1)
        elif op == "...":
            a, b = pick(), pick()
            add([v, "...", a, b], False)
        elif op in ("copy", "call"):
            a = pick_no_each()
            copies.append((v, a, False))
            add([v, op, a], nullable[a])
        elif op == "name":
            a = pick_no_each()
            copies.append((v, a, True))
            add([v, "name", a, rng.choice(["n1", "n2", "n3*"])], nullable[a])
        elif op == "set_results_name":
            a = pick_no_each()
            copies.append((v, a, True))
            add([v, "set_results_name", a, rng.choice(["n1", "n4"]), rng.random() < 0.5], nullable[a])
        elif op in ("Opt", "Group", "Suppress", "FollowedBy", "Located"):
            a = pick()
            add([v, op, a], True if op in ("Opt", "FollowedBy") else nullable[a])
        elif op == "Combine":
            a = pick_no_each()   # Combine(adjacent=True) copies its operand (leave_whitespace)
            add([v, "Combine", a, {"adjacent": rng.random() < 0.5}], nullable[a])
        elif op == "DelimitedList":
            a = pick(nonnull=True)
            add([v, "DelimitedList", a, {"delim": ","}], False)
        elif op == "ZeroOrMoreStop":
            a, s = pick(nonnull=True), pick()
            targets.append(s)
            add([v, rng.choice(["ZeroOrMore", "OneOrMore"]), a, s], True)
        elif op == "SkipToFail":
            a, f = pick(), pick()
            targets.append(f)
            add([v, "SkipTo", a, {"fail_on": f}], True)
        elif op == "And":
            xs = [pick() for _ in range(3)]
            add([v, rng.choice(["And", "MatchFirst", "Or"]), xs], all(nullable[x] for x in xs))
        elif op in ("lw", "iw"):
            # a FRESH composite is built and then mutated in place by its own documented method; its operands
            # (shared pool members) must not change
            a, b = pick_no_each(), pick_no_each()
            kind = rng.choice(["+", "|", "Group1", "Opt1"])
            if kind in ("+", "|"):
                add([v, kind, a, b], nullable[a] and nullable[b] if kind == "+" else nullable[a] or nullable[b])
            else:
                add([v, kind[:-1], a], True if kind == "Opt1" else nullable[a])
            sts.append(["_", "lw_inplace" if op == "lw" else "iw_inplace", v])
        elif op == "|''":
            add([v, "|''", pick()], True)
    return sts, copies, targets


def pending_flatten_risky(pp, e, seen=None):
    """is `e` (about to be used in a position that is never streamlined: stop_on / fail_on) inside the region of the
    registered finding `streamline_changes_unstreamlined_user`: it still contains a nested And that streamline will
    flatten, and the flag hypotheses of and_flatten (PPModel/Mod/Sugar.lean: flattenHyp) may fail for it"""
    seen = seen if seen is not None else set()
    if id(e) in seen:
        return False
    seen.add(id(e))
    if isinstance(e, pp.core._PendingSkip):
        return True
    if isinstance(e, pp.ParseExpression) and not e.streamlined:
        if isinstance(e, (pp.Or, pp.Each)) and any(isinstance(x, type(e)) for x in e.exprs):
            return True  # Or/Each flattening: not covered by a theorem
        if isinstance(e, pp.And) and len(e.exprs) == 2:
            for pos, N in ((0, e.exprs[0]), (1, e.exprs[-1])):
                if isinstance(N, pp.And) and not N.parseAction and N.resultsName is None and not N.exprs:
                    # an EMPTY nested And (DelimitedList(max=1): content + (delim + content) * (0, 0)) raises
                    # IndexError -> ParseException until streamline flattens it away; flattenHyp is false for it
                    return True
                if isinstance(N, pp.And) and not N.parseAction and N.resultsName is None and N.exprs:
                    stops = [type(x) is pp.And._ErrorStop for x in N.exprs]
                    if pos == 0 and any(stops):
                        return True
                    if pos == 1:
                        b0 = N.exprs[0]
                        if (stops[0] or isinstance(b0, pp.LineStart) or not b0.callPreparse
                                or b0.skipWhitespace != N.skipWhitespace or set(b0.whiteChars) != set(N.whiteChars)
                                or [id(x) for x in b0.ignoreExprs] != [id(x) for x in N.ignoreExprs]):
                            return True
    return any(pending_flatten_risky(pp, x, seen) for x in corr_parse._children(pp, e))


def unstreamlined_targets(prog):
    """every variable a program uses in a position that is never streamlined (stop_on / fail_on / SkipTo ignore):
    also those of the BASE program (gen.py ManyStop / SkipTo), which compose_steps' own `targets` does not list"""
    out = []
    for st in prog:
        op, a = st[1], st[2:]
        if op in ("ZeroOrMore", "OneOrMore") and len(a) > 1 and a[1] is not None:
            out.append(a[1])
        elif op == "[:]":
            out.append(a[2])
        elif op == "SkipTo" and len(a) > 1 and isinstance(a[1], dict):
            out += [a[1][k] for k in ("fail_on", "ignore") if a[1].get(k)]
    return [t for t in dict.fromkeys(out) if isinstance(t, str)]


def pool_job(job):
    """worker: the same program executed in three schedules; fingerprints of every member must coincide"""
    pp = common.import_pyparsing()
    prog, members, inputs = job["prog"], job["members"], job["inputs"]
    out = {"n": 0, "mism": [], "skip": None, "members": 0}
    # region check on a build that nothing has used yet
    try:
        b0 = gram.build(pp, prog)
    except Exception as ex:  # noqa
        out["skip"] = f"build:{type(ex).__name__}"
        return out
    try:
        if any(pending_flatten_risky(pp, b0.env[t]) for t in list(job["targets"]) + unstreamlined_targets(prog) if t in b0.env):
            out["skip"] = "region:streamline_changes_unstreamlined_user"
            return out
    except RecursionError:
        out["skip"] = "recursion"
        return out

    def stale_savelist(e, seen):
        """region of the registered finding streamline_recomputes_saveAsList: MatchFirst/Or.streamline recompute
        saveAsList (and skipWhitespace), and wrappers copy them at construction: the SHAPE of a named result (scalar vs
        list) of a wrapper - resp. its whitespace skipping - depends on whether the operand had been streamlined when
        the wrapper was built. Full traversal (no short-circuit): both attributes are looked at everywhere."""
        if id(e) in seen:
            return False
        seen.add(id(e))
        r = False
        if isinstance(e, (pp.MatchFirst, pp.Or)) and e.exprs:
            if bool(e.saveAsList) != any(x.saveAsList for x in e.exprs):
                r = True
            if bool(e.skipWhitespace) != all(x.skipWhitespace for x in e.exprs):
                stale_ws.append(1)
        for x in corr_parse._children(pp, e):
            if stale_savelist(x, seen):
                r = True
        return r

    stale_ws = []

    try:
        seen_ = set()
        names_region = any([stale_savelist(b0.env[v], seen_) for v in members])
    except RecursionError:
        names_region = True
    if names_region:
        out["region_names"] = 1
    if stale_ws:
        # same finding, the other recomputed attribute: skipWhitespace of a MatchFirst/Or after set_whitespace_chars()
        out["skip"] = "region:streamline_recomputes_saveAsList(skipWhitespace)"
        return out

    def strip_names(fp):
        if fp is None or not names_region:
            return fp
        res = []
        for x in fp:
            if x[0] == "ok":
                res.append(x[:2])
            elif x[0] in ("scan", "scan-exc"):
                res.append([x[0], [m[:3] for m in x[1]]] + x[2:])
            else:
                res.append(x)
        return res

    def run_schedule(order, uses):
        """uses: {statement index: [vars to parse with right after that statement]}"""
        early = {}

        def hook(b, var, expr, payload):
            fp = fingerprint(pp, expr, inputs)
            early.setdefault(var, fp)

        p2 = []
        for k, st in enumerate(prog):
            p2.append(st)
            for v in uses.get(k, ()):
                p2.append(["_", "use", v])
        b = gram.build(pp, p2, use_hook=hook)
        final = {}
        for v in order:
            final[v] = fingerprint(pp, b.env[v], inputs)
        return early, final

    try:
        rngA = random.Random(job["seed"])
        # A: nothing used while composing; fingerprints taken in creation order
        _, fa = run_schedule(members, {})
        # B: fingerprints in reverse creation order (composites streamline their operands first)
        _, fb = run_schedule(list(reversed(members)), {})
        # C: random uses interleaved with the composition steps (each member possibly used right after creation)
        uses = {}
        first = job["first_step"]
        created = {}
        for k, st in enumerate(prog):
            if st[0] != "_":
                created[st[0]] = k
        for v in members:
            if rngA.random() < 0.5:
                k = max(created[v], first - 1)
                k = rngA.randint(k, len(prog) - 1) if rngA.random() < 0.5 else k
                # never between a fresh composite and its own in-place lw/iw statement
                while k + 1 < len(prog) and prog[k + 1][0] == "_" and prog[k + 1][1] in ("lw_inplace", "iw_inplace"):
                    k += 1
                uses.setdefault(k, []).append(v)
        order_c = list(members)
        rngA.shuffle(order_c)
        ec, fc = run_schedule(order_c, uses)
    except RecursionError:
        out["skip"] = "recursion"
        return out
    except Exception as ex:  # noqa
        out["skip"] = f"error:{type(ex).__name__}"
        return out
    for v in members:
        fps = [("A:creation-order", fa.get(v)), ("B:reverse-order", fb.get(v)), ("C:interleaved-final", fc.get(v))]
        if v in ec:
            fps.append(("C:right-after-creation", ec[v]))
        fps = [(nm, strip_names(fp)) for nm, fp in fps]
        if any(fp is None for _, fp in fps):
            continue
        out["members"] += 1
        out["n"] += len(inputs) * len(fps)
        ref = fps[0][1]
        for nm, fp in fps[1:]:
            if fp != ref:
                j = next(i for i in range(len(ref)) if i >= len(fp) or fp[i] != ref[i])
                out["mism"].append({"prog": prog, "member": v, "input": inputs[j // 2], "schedules": [fps[0][0], nm],
                                    "expected": ref[j], "actual": fp[j] if j < len(fp) else None,
                                    "uses": {str(k): u for k, u in uses.items()}, "kind": "pool", "targets": job["targets"],
                                    "members": members, "first_step": first, "seed": job["seed"], "inputs": inputs})
                break
    # a copy parses identically to its original (names: tokens only)
    dflt = set(pp.ParserElement.DEFAULT_WHITE_CHARS)

    def stale_white(e, seen):
        """region of the registered finding copy_resets_whitechars: copy() re-installs the default whitespace set on an
        element whose set was edited directly (LineStart, and whatever took its flags from one)"""
        if id(e) in seen:
            return False
        seen.add(id(e))
        if e.copyDefaultWhiteChars and set(e.whiteChars) != dflt:
            return True
        return any(stale_white(x, seen) for x in corr_parse._children(pp, e))

    for c, o, named in job["copies"]:
        fc_, fo_ = fa.get(c), fa.get(o)
        if fc_ is None or fo_ is None or named:
            # expr('name') is not claimed to parse like expr (Located / Combine group their tokens when named)
            continue
        if stale_white(b0.env[o], set()):
            out["region_copy"] = out.get("region_copy", 0) + 1
            continue
        fc_, fo_ = strip_names(fc_), strip_names(fo_)
        out["n"] += len(inputs)
        if fc_ != fo_:
            j = next(i for i in range(len(fo_)) if fc_[i] != fo_[i])
            out["mism"].append({"prog": prog, "member": c, "original": o, "input": inputs[j // 2], "schedules": ["copy", "original"],
                                "expected": fo_[j], "actual": fc_[j], "kind": "copy", "named": named, "inputs": inputs,
                                "members": members, "copies": job["copies"], "targets": job["targets"], "first_step": job["first_step"],
                                "seed": job["seed"]})
            break
    return out


def gen_pool_jobs(ctx, n, tag="pool"):
    jobs = []
    for i in range(n):
        seed = f"C12-{ctx.seed}-{tag}-{i}"
        rng = random.Random(seed)
        # base pool without in-place decoration after sharing started: gen.py decorates a composite right after
        # creating it; the composition phase below only uses pure operations
        pg, prog, root = base_program(rng, dict(n_leaves=4, n_comp=rng.choice([2, 4, 6]), ws_variants=0.2, actions=0.1,
                                                names=0.0, set_name=0.1, ignore=0.0))
        first = len(prog)
        sts, copies, targets = compose_steps(rng, pg, rng.choice([4, 8, 12]))
        full = prog + sts
        members = [st[0] for st in full if st[0] != "_"]
        inputs = gen.inputs_for(rng, pg, root, 4) + rng.sample(FIXED_INPUTS, 5)
        jobs.append(dict(prog=full, members=members, inputs=list(dict.fromkeys(inputs)), copies=copies, targets=targets,
                         first_step=first, seed=seed))
    return jobs


def run_pools(ctx, jobs, stream="oracle:pool-fingerprints"):
    res = common.pmap(pool_job, jobs)
    n = sum(r["n"] for r in res)
    skips = {}
    for r in res:
        if r["skip"]:
            skips[r["skip"]] = skips.get(r["skip"], 0) + 1
    mism = [m for r in res for m in r["mism"]]
    ctx.count_cases(stream, n, distinct_keys=[j["seed"] for j in jobs],
                    outcomes={"fingerprint-comparisons": n, "members": sum(r["members"] for r in res), "mismatch": len(mism),
                              "jobs-compared-without-names(region streamline_recomputes_saveAsList)": sum(r.get("region_names", 0) for r in res),
                              "copies-skipped(region copy_resets_whitechars)": sum(r.get("region_copy", 0) for r in res),
                              **{"skipped:" + k: v for k, v in skips.items()}},
                    samples=[{"prog": jobs[0]["prog"], "inputs": jobs[0]["inputs"][:3]}] if jobs else [])
    seen = set()
    for m in mism:
        if m["kind"] in seen:
            continue
        seen.add(m["kind"])
        m = shrink_pool(m) if m["kind"] == "pool" else m
        what = ("a pool member parses differently depending on what was composed/used in between"
                if m["kind"] == "pool" else "a copy parses differently from its original")
        ctx.fail_input(what, m, m["expected"], m["actual"], theorem="C12 value semantics (frame / streamline / copy_equiv)",
                       how="harness.props.c12.replay_pool")
    return mism


def replay_pool(case):
    job = dict(prog=case["prog"], members=case["members"], inputs=case["inputs"], copies=case.get("copies", []),
               targets=case.get("targets", []), first_step=case["first_step"], seed=case["seed"])
    r = pool_job(job)
    return [m for m in r["mism"] if m["kind"] == case["kind"]]


def shrink_pool(m):
    """drop statements that are not needed for the mismatch (keeps the job deterministic: same seed)"""
    cur = m
    prog = list(m["prog"])
    k = len(prog) - 1
    budget = 40
    while k >= 0 and budget > 0:
        st = prog[k]
        cand = prog[:k] + prog[k + 1:]
        names = {s[0] for s in cand if s[0] != "_"}
        ok = st[0] != m["member"] and all(_refs_ok(s, names) for s in cand)
        if ok:
            budget -= 1
            first = cur["first_step"] - (1 if k < cur["first_step"] else 0)
            c2 = dict(cur, prog=cand, members=[s[0] for s in cand if s[0] != "_"], first_step=first)
            try:
                r = replay_pool(c2)
            except Exception:  # noqa
                r = []
            if r:
                cur = r[0]
                prog = cand
        k -= 1
    return cur


def _refs_ok(st, names):
    def refs(x):
        if isinstance(x, str):
            return [x]
        if isinstance(x, list):
            return [y for z in x for y in refs(z)]
        if isinstance(x, dict):
            return [y for z in x.values() for y in refs(z)]
        return []
    op = st[1]
    if op in ("Literal", "Word", "Keyword", "CaselessLiteral", "CaselessKeyword", "CharsNotIn", "Char", "WordStart", "WordEnd"):
        return True
    args = st[2:]
    if op in ("name", "set_results_name", "action", "condition", "set_name", "set_whitespace_chars"):
        args = st[2:3]
    if op == "Opt":
        args = st[2:3]
    if op in ("Combine", "DelimitedList"):
        args = st[2:3]
    if op == "SkipTo":
        args = [st[2]] + [v for v in (st[3] if len(st) > 3 else {}).values() if isinstance(v, str)]
    return all((r in names) for r in refs(args) if isinstance(r, str) and (r[:1] in "efm" and r[1:].isdigit()))


# ---------------------------------------------------------------------------------------------------
# registered witnesses (corpus): run first
# ---------------------------------------------------------------------------------------------------
def witness_pending_skip(pp):
    """e = a + (b + ...) shared by x1 = e + c and x2 = e + d: using x1 rewrites e in place (And.streamline 4147-4157)"""
    def mk():
        e = pp.Literal("a") + (pp.Literal("b") + ...)
        return e, e + "c", e + "d"
    s = "a b zz d"
    _, _, x2 = mk()
    before = outcome(pp, x2, s)
    _, x1, x2 = mk()
    outcome(pp, x1, "a b zz c")
    after = outcome(pp, x2, s)
    return before, after


def witness_unstreamlined_user(pp):
    """Y = a + (LineStart() + b) is the stop_on of R; using Y (which streamlines and flattens it) changes R"""
    a, b = pp.Literal("a"), pp.Literal("b")
    Y = a + (pp.LineStart() + b)
    R = pp.OneOrMore(pp.Word("za"), stop_on=Y)
    s = "z a\nb"
    before = outcome(pp, R, s)
    outcome(pp, Y, "a\nb")
    after = outcome(pp, R, s)
    return before, after


def witness_unstreamlined_user_empty_and(pp):
    """same finding, reached through DelimitedList(e, max=1) = And([e, And([])]): the EMPTY nested And raises
    IndexError -> ParseException until streamline flattens it away, so the unstreamlined stop_on never matches"""
    def mk():
        e6 = pp.DelimitedList(pp.Word("a", "b"), delim="+", min=1, max=1)
        return e6, pp.OneOrMore(pp.CharsNotIn("x\n", max=2), stop_on=e6)
    s = "ab +ab +abb"
    _, m1 = mk()
    before = outcome(pp, m1, s)
    e6, m1 = mk()
    outcome(pp, e6, "a")
    return before, outcome(pp, m1, s)


def witness_forward_copy(pp):
    """C = F.copy() taken before F is assigned keeps the default whitespace flags"""
    F = pp.Forward()
    C = F.copy()
    F <<= pp.Word("a").leave_whitespace()
    return outcome(pp, F, " a"), outcome(pp, C, " a")


def witness_copy_whitechars(pp):
    """copy() re-installs DEFAULT_WHITE_CHARS on an expression whose whiteChars were edited in place (LineStart drops
    '\\n' from its set but keeps copyDefaultWhiteChars): scan_string's pre-parser then skips differently"""
    A = pp.LineStart() + "b"
    C = A.copy()
    s = "a\n\nb"
    return scan_outcome(pp, A, s), scan_outcome(pp, C, s)


def witness_savelist(pp):
    """the shape of a named result of Opt(e) depends on whether e (a MatchFirst with an And alternative) had been
    streamlined when Opt(e) was built"""
    def mk():
        return (pp.Word("a") + pp.Word("b")) | pp.LineEnd()
    e = mk()
    before = outcome(pp, pp.Opt(e)("n"), "\n")
    e = mk()
    outcome(pp, e, "a b")
    after = outcome(pp, pp.Opt(e)("n"), "\n")
    return before, after


def witness_each_copy(pp):
    """Each caches its expression groups at the first parse; copy() keeps the cache, so a copy of a USED Each parses
    with the original's children whatever is done to the copy's own (here: leave_whitespace)"""
    def mk(used):
        E = pp.Word("a") & pp.Word("b")
        if used:
            outcome(pp, E, "a b")
        return E.copy().leave_whitespace()
    return outcome(pp, mk(False), " a b"), outcome(pp, mk(True), " a b")


def witness_enhance_copy(pp):
    """Lean: PP.Heap.enhance_copy_shares_child.  ParserElement.copy is shallow for every ParseElementEnhance: the copy of
    a Group shares the contained And with the original, so ignore() on the copy (which appends in place all the way
    down) changes how the ORIGINAL parses"""
    def mk():
        return pp.Group(pp.Literal("a") + pp.Literal("b"))
    s = "a#b"
    g = mk()
    before = outcome(pp, g, s)
    g = mk()
    c = g.copy()
    c.ignore(pp.Literal("#"))
    return before, outcome(pp, g, s)


WITNESSES = [
    ("pending_skip_rewrites_shared_operand", witness_pending_skip,
     "x2 = e + 'd' with e = Literal('a') + (Literal('b') + ...) on 'a b zz d', fresh vs after x1 = e + 'c' was used"),
    ("streamline_changes_unstreamlined_user", witness_unstreamlined_user,
     "R = OneOrMore(Word('za'), stop_on=Y), Y = Literal('a') + (LineStart() + Literal('b')), on 'z a\\nb', before vs after Y.parse_string"),
    ("streamline_changes_unstreamlined_user", witness_unstreamlined_user_empty_and,
     "e6 = DelimitedList(Word('a','b'), delim='+', max=1) (= And([e, And([])])); m1 = OneOrMore(CharsNotIn('x\\n', max=2), stop_on=e6) on "
     "'ab +ab +abb': ['ab',' +','ab',' +','ab','b'] while e6 was never used, ParseException(0) after e6.parse_string('a')"),
    ("forward_copy_before_assignment", witness_forward_copy,
     "F = Forward(); C = F.copy(); F <<= Word('a').leave_whitespace(); F vs C on ' a'"),
    ("streamline_recomputes_saveAsList", witness_savelist,
     "e = (Word('a') + Word('b')) | LineEnd(); Opt(e)('n').parse_string('\\n').as_dict() built before vs after e.parse_string('a b')"),
    ("each_copy_keeps_cached_groups", witness_each_copy,
     "E = Word('a') & Word('b'); E.copy().leave_whitespace() on ' a b': ParseException(0) if E was never used, ['a','b'] if E had parsed before"),
    ("copy_resets_whitechars", witness_copy_whitechars,
     "A = LineStart() + 'b'; A.scan_string('a\\n\\nb') reports the match at 2, A.copy().scan_string at 3"),
    ("enhance_copy_shares_child", witness_enhance_copy,
     "g = Group(Literal('a') + Literal('b')); c = g.copy(); c.ignore(Literal('#')): g.parse_string('a#b') raises "
     "ParseException(1) before, returns [['a','b']] after"),
]


def run_witnesses(ctx):
    pp = common.import_pyparsing()
    n = 0
    for sig, fn, desc in WITNESSES:
        try:
            exp, act = fn(pp)
        except Exception as ex:  # noqa
            exp, act = ["same"], ["internal", type(ex).__name__, str(ex)[:80]]
        n += 1
        if exp != act:
            ctx.fail_input("value semantics witness: " + sig, {"witness": sig, "description": desc, "kind": "witness"}, exp, act,
                           theorem="C12 value semantics", signature=sig, how="harness.props.c12.WITNESSES")
    ctx.count_cases("corpus:registered-witnesses", n, distinct_keys=[w[0] for w in WITNESSES], outcomes={"witnesses": n})


# ---------------------------------------------------------------------------------------------------
# ------------------------------------------------------------------------------------------------
# directed templates: operands that were CONFIGURED (actions, conditions, names, ignorables) before they are copied or
# composed.  The statement: "a copy parses identically to its original", "composing never changes how the operands
# parse", "a + ... + b == a + SkipTo(b)('_skipped*') + b".  Body whitespace is the default everywhere (the registered
# difference forward_copy_before_assignment concerns only whitespace flags of a copy taken before `<<=`).
# ------------------------------------------------------------------------------------------------
def _cfg_actions(pp, kind):
    """non-idempotent actions / conditions: running them twice (or not at all) shows in the tokens"""
    if kind == "bang":
        return lambda e: e.add_parse_action(lambda t: [x + "!" for x in t])
    if kind == "dup":
        return lambda e: e.add_parse_action(lambda t: list(t) + list(t))
    if kind == "count":
        def f(e):
            box = []
            e.add_parse_action(lambda t: (box.append(1), [f"{x}#{len(box)}" for x in t])[1])
            return e
        return f
    if kind == "cond":
        def f(e):
            box = []
            e.add_condition(lambda t: (box.append(1), len(box) % 2 == 1)[1])   # true on odd calls only
            return e
        return f
    if kind == "name":
        return lambda e: e.set_name("cfg")
    raise KeyError(kind)


def directed_copy_cases(pp):
    """(description, build) ; build() -> (original, copy) both parsed on the same inputs, fresh objects per call"""
    W = lambda: pp.Word("ab")
    N = lambda: pp.Word("01")
    out = []
    for cfg in ("bang", "dup", "count", "cond", "name"):
        for how in ("copy", "call", "named", "set_results_name", "in-And", "in-MatchFirst"):
            for when in ("unassigned", "assigned"):
                def build(cfg=cfg, how=how, when=when):
                    def one():
                        F = pp.Forward()
                        if when == "assigned":
                            F <<= W() + pp.Opt(N())
                        _cfg_actions(pp, cfg)(F)
                        return F
                    F = one()
                    G = one()            # the "original" side is never copied: an untouched twin built the same way
                    if how == "copy":
                        C = F.copy()
                    elif how == "call":
                        C = F()
                    elif how == "named":
                        C = F("n")
                    elif how == "set_results_name":
                        C = F.set_results_name("n")
                    elif how == "in-And":
                        C = (F + pp.Empty()).copy()
                        G = G + pp.Empty()
                    else:
                        C = (F | pp.NoMatch()).copy()
                        G = G | pp.NoMatch()
                    if how in ("named", "set_results_name"):
                        pass
                    if when == "unassigned":
                        F <<= W() + pp.Opt(N())
                        Gf = G if how in ("copy", "call", "named", "set_results_name") else G.exprs[0]
                        Gf <<= W() + pp.Opt(N())
                    return G, C, F
                out.append((f"Forward {when}, configured with {cfg}, copied by {how}", build))
    return out


def directed_skip_cases(pp):
    """a + ... + b against the documented spelling, with a configured anchor; and b before / after the composition"""
    out = []
    for ign in ("c", "#", "lit"):
        def build(ign=ign):
            def anchor():
                a = pp.Literal("start")
                a.ignore({"c": pp.c_style_comment, "#": pp.python_style_comment, "lit": pp.Literal("~")}[ign])
                return a
            b1, b2 = pp.Literal("end"), pp.Literal("end")
            sugar = anchor() + ... + b1
            spelled = anchor() + pp.SkipTo(b2)("_skipped*") + b2
            return sugar, spelled, b1, pp.Literal("end")
        out.append((f"a + ... + b, anchor a carries ignore({ign})", build))
    return out


DIRECTED_INPUTS = ["ab", "ab 01", " ab 01", "a", "01", "", "ab ab", "b 1 x"]
SKIP_INPUTS = ["start /* the end */ real end", "start x end", "start end", "start # end\n z end", "start ~ end ~ end",
               "start /* c */ end", "/* x */ end", "# c\nend", "~end", "end", "start"]


def run_directed(ctx):
    pp = common.import_pyparsing()
    n, bad = 0, 0
    for desc, build in directed_copy_cases(pp):
        for s in DIRECTED_INPUTS:
            n += 1
            try:
                G, C, F = build()
                want = outcome(pp, G, s, names=False)
                got_c = outcome(pp, C, s, names=False)
                got_f = None
                if "with count" not in desc and "with cond" not in desc:   # stateful actions: state is shared by design
                    G, C, F = build()
                    outcome(pp, C, s, names=False)      # using the copy must not change the original either
                    got_f = outcome(pp, F, s, names=False)
            except Exception as ex:  # noqa: a constructor that raises is reported through the outcomes below
                want, got_c, got_f = "built", ["internal", type(ex).__name__], None
            for what, got in (("copy", got_c), ("original after the copy was used", got_f)):
                if got is not None and got != want and bad < 3:
                    bad += 1
                    ctx.fail_input("a copy of a configured expression does not parse like the original",
                                   {"kind": "directed-copy", "desc": desc, "input": s, "which": what}, want, got,
                                   theorem="PP.Parse.copy_equiv (value semantics of copy(); oracle on the real objects)")
    for desc, build in directed_skip_cases(pp):
        for s in SKIP_INPUTS:
            n += 1
            sugar, spelled, b_used, b_fresh = build()
            o1, o2 = outcome(pp, sugar, s), outcome(pp, spelled, s)
            o3, o4 = outcome(pp, b_used, s, names=False), outcome(pp, b_fresh, s, names=False)
            if o1 != o2 and bad < 3:
                bad += 1
                ctx.fail_input("a + ... + b differs from a + SkipTo(b)('_skipped*') + b",
                               {"kind": "directed-skip", "desc": desc, "input": s, "which": "sugar"}, o2, o1,
                               theorem="PP.Parse.sim_parse_eq (sugar = spelled-out form; oracle on the real objects)")
            if o3 != o4 and bad < 3:
                bad += 1
                ctx.fail_input("building a + ... + b changed how the operand b parses",
                               {"kind": "directed-skip", "desc": desc, "input": s, "which": "operand"}, o4, o3,
                               theorem="PP.Parse.frame (composition never changes an operand; oracle on the real objects)")
    ctx.count_cases("oracle:directed-configured-operands", n,
                    distinct_keys=[d for d, _ in directed_copy_cases(pp)] + [d for d, _ in directed_skip_cases(pp)],
                    outcomes={"cases": n, "problems": bad})


def replay_directed(c):
    pp = common.import_pyparsing()
    s = c["input"]
    if c["kind"] == "directed-copy":
        build = dict(directed_copy_cases(pp))[c["desc"]]
        G, C, F = build()
        want = outcome(pp, G, s, names=False)
        if c["which"] == "copy":
            return outcome(pp, C, s, names=False) != want
        outcome(pp, C, s, names=False)
        return outcome(pp, F, s, names=False) != want
    build = dict(directed_skip_cases(pp))[c["desc"]]
    sugar, spelled, b_used, b_fresh = build()
    if c["which"] == "sugar":
        return outcome(pp, sugar, s) != outcome(pp, spelled, s)
    return outcome(pp, b_used, s, names=False) != outcome(pp, b_fresh, s, names=False)


def run(ctx):
    common.import_pyparsing()
    ctx.proof_leg("PPProofs.Props.C12", THEOREMS)
    ctx.rule.append(
        "pools from harness/gen.py (shared sub-expressions, Forwards, whitespace variants, actions) x every sugar form "
        "(sugar vs spelled out, both streamlined, graphs extracted from the live objects, simulation checked by the Lean "
        "driver; outcomes compared on sampled/mutated/fixed inputs) ; x random pure composition sequences (every operator, "
        "copy/call/names, fresh-composite leave_whitespace) executed under three use schedules: the fingerprint "
        "(parse_string + scan_string outcomes: tokens, names | exception class, loc) of EVERY member must coincide; "
        "documented mutators are not used on shared members; transform_string (permanent keepTabs) is not used for "
        "fingerprints; nullable repetitions skipped; jobs inside the region of a registered finding (an unstreamlined "
        "stop_on/fail_on target that still contains a nested And failing flattenHyp, a dangling `...`, copy of an "
        "unassigned Forward) are skipped and counted; non-trivial = distinct (program, form) / pool seed; "
        "part C: histories = pool + operands with a non-skipping top over skipping descendants (NotAny over Keyword, "
        "And led by a leave_whitespace()'d literal / CharsNotIn, Combine, wrapped ones) + composites / copies (copy, "
        "expr(), expr('name'), set_results_name, copies of composites) + in-place statements on a composite / copy "
        "(ignore, leave_whitespace, ignore_whitespace, set_whitespace_chars, add_parse_action, set_name; optionally "
        "used before / after) + second independent composites; reference build without the in-place statements vs "
        "test build; probes = every variable whose object graph is disjoint from the footprints (ignore: objects "
        "reachable from the target; others: the target) and that was not built from a footprint object afterwards; "
        "inputs sampled from the live objects with leading/interior blanks and '#' comment text; "
        "non-trivial = distinct history seed")
    run_witnesses(ctx)
    run_directed(ctx)
    # PART A
    sj = gen_sugar_jobs(ctx, ctx.budget(60, 500))
    bad_shape, mism = run_sugar(ctx, sj)
    # model-vs-real on the sugar programs (ties the parse model on exactly these constructs)
    cj = []
    for j in sj[:: ctx.budget(3, 2)]:
        for r in ("S", "X"):
            cj.append(dict(prog=j["prog"], root=r, inputs=j["inputs"][:5], entries=ENTRIES, modes=[("none",)]))
    corr_parse.run_jobs(ctx, "model-vs-real:sugar", cj)
    run_flatten(ctx, ctx.budget(300, 3000), ctx.budget(400, 4000))
    # PART B
    mult = 4 if (ctx.broken and not ctx.fail_inputs) else 1
    run_pools(ctx, gen_pool_jobs(ctx, ctx.budget(500, 5000) * mult))
    # PART C: in-place operations applied to composites / copies AFTER composition (harness/props/c12_hist.py)
    from . import c12_hist
    c12_hist.run_hist(ctx, c12_hist.gen_hist_jobs(ctx, ctx.budget(700, 7000)))
    if ctx.broken and not ctx.fail_inputs:
        # a broken obligation / tie is not a violation: search deeper for a failing input
        c12_hist.run_hist(ctx, c12_hist.gen_hist_jobs(ctx, ctx.budget(700, 7000) * 3, tag="hist-deep"),
                          stream="oracle:in-place-after-composition(deep)")
    ctx.assumptions.append("C12: results names, Each, Or-flattening and the value semantics of the real object graph are decided "
                           "by the real-code oracle; the theorems speak about the parse model and the table transformations")


def replay(data):
    pp = common.import_pyparsing()
    if data.get("replay_kind") == "failing-input":
        c = data["case"]
        k = c.get("kind")
        if k == "sugar":
            r = sugar_job(dict(prog=c["prog"], form=c["form"], inputs=[c["input"]], operands=c.get("operands")))
            return bool(r["mism"])
        if k in ("flat", "flat-witness"):
            r = flat_job(dict(prog=c["prog"], inputs=[c["input"]]))
            return bool(r["mism"])
        if k in ("pool", "copy"):
            return bool(replay_pool(c))
        if k == "mut":
            from . import c12_hist
            return bool(c12_hist.replay_hist(c))
        if k in ("directed-copy", "directed-skip"):
            return bool(replay_directed(c))
        if k == "witness":
            for sig, fn, _ in WITNESSES:
                if sig == c["witness"]:
                    exp, act = fn(pp)
                    return exp != act
        return False
    ctx = common.Ctx("C12", "quick", data.get("seed", 0))
    run(ctx)
    return bool(ctx.broken or ctx.fail_inputs)
