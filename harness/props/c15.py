"""C15 — concurrent parsing from several threads equals serial parsing.

proof:           lean/PPProofs/Props/C15.lean over lean/PPModel/Mod/Threads.lean
                 (packrat_atomic, packrat_mutual_exclusion, cache_entries_correct, concurrent_eq_serial,
                 no_internal_error, no_deadlock for modes off/packrat, all schedules, any number of threads;
                 lr_race_witness / lr_reset_race_witness: the property is false in left-recursion mode)
tie:             (a) trace validation: every (thread, event) trace logged from the wrapped real class-level
                     locks / cache / memo table must be a run of `evStep` (driver: threads-validate)
                 (b) forced schedules: the model (tables learnt from serial runs of the real code) predicts
                     the complete event trace + results of the real code under the same schedule
                     (driver: threads-explore / threads-run / lr-run)
search (oracle): per-thread outcome == the same call alone; no internal error; no deadlock — under
                 forced schedules (region, event, line/opcode granularity) and free-running stress
nested entries:  harness/props/c15_nested.py — parse actions / conditions that call parse_string / scan_string /
                 search_string / transform_string on a shared sub-grammar (model: `Act.entry`, `Locks`)
"""
from __future__ import annotations

import json
import sys
import threading

from .. import common
from ..sexp import Sym, dumps, loads
from . import c15_nested as N
from . import c15_sched as S

META = dict(
    text="Lean theorems (PPProofs/Props/C15.lean), for ALL schedules, any number of threads, all grammars/"
         "inputs (abstracted as arbitrary element behaviours), all cache sizes and initial cache contents, in "
         "modes OFF and PACKRAT: every packrat-cache access and reset_cache happens with packrat_cache_lock "
         "held (packrat_atomic, packrat_mutual_exclusion); every cache entry is the serial answer for its own "
         "key incl. the input string (cache_entries_correct); each thread's result equals its result alone "
         "(concurrent_eq_serial, full strength for these modes); _FifoCache.set never raises "
         "(no_internal_error); some thread can always step (no_deadlock). LEFT-RECURSION mode: the property "
         "is FALSE of the current code, proved by concrete schedules (lr_race_witness: memo key has no input "
         "string and UnboundedMemo retains deleted entries; lr_reset_race_witness: reset_cache clears the "
         "memo without recursion_lock => KeyError) and replayed on the real code = open known finding "
         "lr_mode_shared_memo. In LR mode only these witnesses plus runs whose threads all parse the SAME "
         "input and whose reset_cache() calls all precede the first memo access are checked (oracle only, "
         "no Lean theorem: partial). Outside the model's hypothesis (an element's behaviour is a function of its cache "
         "key): parse actions whose output depends on the calling thread; for these an oracle-only leg suspends a "
         "thread inside each of its parse actions while the others run, and a second open known finding "
         "(packrat_equal_input_shared_entries: a call is served another call's complete cached parse of a "
         "value-equal string) is replayed. 'Nothing deadlocks' is additionally checked for lazily consumed "
         "scan_string generators whose consumer waits for another thread's parse between matches (oracle only). "
         "NESTED entry-point calls (a parse action or condition calling parse_string / scan_string / search_string / "
         "transform_string of a shared sub-grammar, to any depth): in modes off/packrat they are part of the thread "
         "machine (Act.entry = a second reset_cache() + parse on top of the running parse), so all theorems above cover "
         "them; over BOTH class-level locks and all three modes Locks.lock_order_no_deadlock proves that threads whose "
         "acquisitions respect one global order never deadlock (any number of threads, all schedules, RLock "
         "re-entrancy), and Locks.nested_entry_no_deadlock instantiates it with the order of the unchanged code "
         "(recursion_lock before packrat_cache_lock: Forward.parseImpl holds recursion_lock around actions whose nested "
         "reset_cache() takes packrat_cache_lock; nothing takes recursion_lock while holding packrat_cache_lock); "
         "the lock machine is stated for any number of locks (0 = recursion_lock, 1 = packrat_cache_lock, 2+i = a lock "
         "stored on an element instance); that the current source has exactly the two class-wide locks and that every "
         "Forward uses the class-wide recursion_lock are GENERATED facts read from the live objects "
         "(Gen/C15Locks.lean; forward_lock_is_class_wide, class_locks_are_two break when they change); "
         "Locks.Ex.two_orders_unorderable / two_orders_deadlock (an entry that takes recursion_lock first) and "
         "per_forward_locks_unorderable / per_forward_locks_deadlock (one lock per Forward: order follows the grammar "
         "traversal) show the hypothesis cannot be dropped. The scheduler also wraps any lock it finds on an element "
         "instance, and explores grammars with 2-3 mutually recursive Forwards entered at DIFFERENT rules in "
         "left-recursion mode for deadlocks. The tagged-action leg also places a thread's CALL of parse_string() "
         "(not only its progress) while another thread is suspended inside a parse action. Checked on the real "
         "code: every thread's logged lock operations respect that order; the model predicts the complete event trace "
         "of nested-call grammars under forced schedules (off/packrat); and the scheduler explores ALL lock-region "
         "interleavings plus every placement of the other threads' entry relative to a first thread's lock operations "
         "(modes off / packrat 0,2,128,None / left-recursion with equal inputs), reporting deadlocks (detected by the "
         "scheduler, no timeouts) and outcomes that differ from the serial run. "
         "The model is tied to /repo by validating every logged event trace of "
         "the wrapped real locks/cache/memo against the Lean event semantics and by predicting the exact "
         "event trace and results of the real code under model-enumerated forced schedules.",
    note="Trusted: Lean kernel; axioms propext/Classical.choice/Quot.sound; GIL atomicity of a single dict "
         "operation and correctness of threading.RLock (assumed, not modelled); the Threads.lean "
         "transcription of _parseCache/reset_cache/_FifoCache/_UnboundedCache/Forward.parseImpl event order "
         "(checked by trace validation + forced-schedule correspondence on the cases run); the wrappers and "
         "the deterministic scheduler in harness/props/c15_sched.py. Element parsing itself is abstracted "
         "(an element = a deterministic function of its children's results); exception messages are not "
         "compared; _LRUMemo (bounded LR memo) is not modelled; enable_*/disable_memoization during "
         "concurrent parsing is out of scope. Locks (Part 5): a thread is abstracted to the list of its lock "
         "operations; that the real threads' sequences have the shapes PackratProg / LRProg (hence are ordered) is "
         "checked on every logged trace of the nested-call leg (`locks-check`), not derived from the source; the "
         "nested-call grammars' actions are harness code that brackets the nested call with marker pseudo-events.",
    technique="Lean 4 proof over a small-step N-thread model + trace validation + forced-schedule correspondence",
    design="§5 C15",
)

THEOREMS = [
    "PP.Threads.packrat_atomic",
    "PP.Threads.packrat_mutual_exclusion",
    "PP.Threads.cache_entries_correct",
    "PP.Threads.eval_deterministic",
    "PP.Threads.result_is_serial_answer",
    "PP.Threads.concurrent_eq_serial",
    "PP.Threads.no_internal_error",
    "PP.Threads.no_deadlock",
    "PP.Threads.Locks.lock_order_no_deadlock",
    "PP.Threads.Locks.packrat_nested_ordered",
    "PP.Threads.Locks.lr_nested_ordered",
    "PP.Threads.Locks.nested_entry_no_deadlock",
    "PP.Threads.Locks.forward_lock_is_class_wide",
    "PP.Threads.Locks.class_locks_are_two",
    "PP.Threads.Locks.Ex.two_orders_unorderable",
    "PP.Threads.Locks.Ex.two_orders_deadlock",
    "PP.Threads.Locks.Ex.per_forward_locks_unorderable",
    "PP.Threads.Locks.Ex.per_forward_locks_deadlock",
    "PP.Threads.LR.lr_race_witness",
    "PP.Threads.LR.lr_reset_race_witness",
]

SIG = "lr_mode_shared_memo"

GEN_REL = "PPProofs/Props/Gen/C15Locks.lean"


def lock_facts(pp):
    """which lock objects exist, read from the LIVE package: lock-typed class attributes of ParserElement and all its
    subclasses; lock objects stored on element instances of probe grammars; identity of every Forward's
    `recursion_lock` with the class-wide one"""
    PE = pp.ParserElement

    def subs(c):
        yield c
        for d in c.__subclasses__():
            yield from subs(d)

    names = set()
    for c in set(subs(PE)):
        for k, v in vars(c).items():
            if isinstance(v, S.LOCK_TYPES):
                names.add(k)
    exprs = []
    for b in N.lr_grammars(pp).values():
        exprs += list(b("parse").values())
    for b in N.grammars(pp).values():
        exprs += list(b("parse").values())
    for b in lr_grammars(pp).values():
        exprs.append(b())
    for b in grammars(pp).values():
        exprs.append(b())
    inst = S.instance_locks(exprs)
    fwds = [e for e in S.walk(exprs) if isinstance(e, pp.Forward)]
    fwd_ok = bool(fwds) and all(getattr(e, "recursion_lock", None) is PE.recursion_lock for e in fwds)
    return sorted(names), len(inst), fwd_ok, len(fwds)


def gen_lock_facts(names, n_inst, fwd_ok):
    lst = ", ".join('"' + n + '"' for n in names)
    return f'''/-! GENERATED by harness/props/c15.py from the live pyparsing package (lock objects reachable from the classes and
    from freshly built grammar elements). Do not edit. -/
namespace PP.Threads.Locks.Gen

/-- names of the lock-typed attributes defined by ParserElement and its subclasses (class level) -/
def classLocks : List String := [{lst}]

/-- number of lock objects stored on element INSTANCES of the probe grammars (Forward, And, MatchFirst, ...) -/
def instanceLocks : Nat := {n_inst}

/-- `Forward().recursion_lock is ParserElement.recursion_lock` (for every Forward of the probe grammars) -/
def forwardUsesClassRecursionLock : Bool := {"true" if fwd_ok else "false"}

end PP.Threads.Locks.Gen
'''


# ------------------------------------------------------------------------------------------------
# grammars, inputs, calls
# ------------------------------------------------------------------------------------------------
def grammars(pp):
    W = lambda: pp.Word("ab")
    N = lambda: pp.Word("01")

    def arith():
        e = pp.Forward()
        num = pp.Word(pp.nums).add_parse_action(lambda t: int(t[0]))
        atom = num | pp.Group(pp.Suppress("(") + e + pp.Suppress(")"))
        term = atom + pp.ZeroOrMore(pp.one_of("* /") + atom)
        e <<= term + pp.ZeroOrMore(pp.one_of("+ -") + term)
        return e

    def prefix():
        w, n = W(), N()
        return (w + n + "x") | (w + n + "y") | w

    def named():
        w, n = W(), N()
        return pp.Group(w("k") + pp.Opt(n)("v"))[1, ...] + pp.StringEnd()

    def orlong():
        w, n = W(), N()
        return (w ^ (w + n) ^ (w + n + w)) + pp.Opt(pp.Literal("!"))

    def shared():
        n = N()
        pair = n + pp.Suppress(",") + n
        return pp.Group(pair) + ";" + pp.Group(pair) | pp.Group(pair) | n

    return {"arith": arith, "prefix": prefix, "named": named, "orlong": orlong, "shared": shared}


INPUTS = {
    "arith": ["1+2*3", "(1+2)*3", "7", "1+", "2*(3+4)-1", "(1"],
    "prefix": ["ab 01 y", "ab 01 x", "ab", "ba 10 z", "01"],
    "named": ["ab 01 ba", "a b 1", "ab", "01", "a 0 b 1"],
    "orlong": ["ab 01 ab!", "ab 01", "ab!", "01", "ab 01 0"],
    "shared": ["0,1;1,0", "0,1", "1", "0,1;", "x"],
}
# different inputs of equal length with common prefixes (a key that identifies the input only partly collides)
TWINS = {
    "arith": ["1+2*3", "1*2+3", "(1+2", "(1)+2", "1+2+3"],
    "prefix": ["ab 01 y", "ab 01 x", "ab 10 y", "ba 01 y"],
    "named": ["ab 01 ba", "ab 01 01", "ab ab ba"],
    "orlong": ["ab 01 ab!", "ab 01 ab?", "ab 01 01!"],
    "shared": ["0,1;1,0", "0,1;1,x", "0,1,1,0"],
}
SCAN_INPUTS = {
    "arith": ["1+2 x 3", "x (1) y"],
    "prefix": ["ab 01 y ab", "z ab"],
    "orlong": ["ab 01 0 ab"],
    "shared": ["0,1 1"],
}


def lr_grammars(pp):
    def lsum():
        e = pp.Forward()
        num = pp.Word(pp.nums)
        e <<= e + "+" + num | num
        return e

    def lterm():
        e, t = pp.Forward(), pp.Forward()
        num = pp.Word(pp.nums)
        t <<= t + "*" + num | num
        e <<= e + "-" + t | t
        return e + pp.StringEnd()

    def base():
        f = pp.Forward()
        f <<= pp.Word(pp.nums)
        return f

    return {"lsum": lsum, "lterm": lterm, "base": base}


LR_INPUTS = {"lsum": ["1+2+3", "4", "1+"], "lterm": ["1-2*3-4", "5*6", "7-"], "base": ["1", "12"]}


def exprs_of(c):
    """the grammars of a case (the scheduler wraps lock objects stored on their element instances, if any)"""
    if getattr(c, "expr", None) is not None:
        return [c.expr]
    return list(getattr(c, "g", {}).values())


def outcome_of(pp, fn):
    try:
        return fn()
    except pp.ParseBaseException as pe:
        return f"exc {type(pe).__name__} {pe.loc}"


def mk_call(pp, expr, entry, s):
    if entry == "parse":
        return lambda: outcome_of(pp, lambda: "res " + S.canon_results(expr.parse_string(s)))
    if entry == "parse_all":
        return lambda: outcome_of(pp, lambda: "res " + S.canon_results(expr.parse_string(s, parse_all=True)))
    if entry == "scan":
        return lambda: outcome_of(pp, lambda: "scan " + repr(
            [(S.canon_results(t), a, b) for t, a, b in expr.scan_string(s)]))
    if entry == "search":
        return lambda: outcome_of(pp, lambda: "search " + repr(
            [S.canon_results(t) for t in expr.search_string(s)]))
    if entry == "transform":
        return lambda: outcome_of(pp, lambda: "xform " + repr(expr.transform_string(s)))
    raise ValueError(entry)


def mode_of(m):
    return tuple(m)


def mode_sexp(mode):
    size = Sym("none")
    if mode[0] == "packrat" and mode[1] is not None:
        size = mode[1]
    memo = Sym("unbounded") if mode[0] == "lr" else Sym("dict")
    return [Sym("size"), size], [Sym("memo"), memo]


# ------------------------------------------------------------------------------------------------
# one case = (mode, grammar name, entry, inputs per thread)
# ------------------------------------------------------------------------------------------------
class Case:
    def __init__(self, pp, mode, gname, entry, inputs, lr=False):
        self.pp, self.mode, self.gname, self.entry, self.inputs = pp, tuple(mode), gname, entry, list(inputs)
        self.lr = lr
        self.expr = (lr_grammars(pp) if lr else grammars(pp))[gname]()
        self.I = S.Interner()
        self.fns = [mk_call(pp, self.expr, entry, s) for s in self.inputs]
        self.serial = None
        self.rows = None
        self.learn_ok = True

    @classmethod
    def custom(cls, pp, mode, desc, fns):
        """a scenario with hand-built thread functions (no call tables: oracle only)"""
        c = cls.__new__(cls)
        c.pp, c.mode, c._desc, c.fns = pp, tuple(mode), dict(desc), list(fns)
        c.gname, c.entry, c.inputs, c.lr = desc.get("grammar"), desc.get("scenario"), desc.get("inputs", []), False
        c.I = S.Interner()
        c.serial, c.rows, c.learn_ok = None, None, False
        # every thread parks BEFORE it enters its entry point: the schedule decides when a call begins (a thread that
        # calls parse_string() while another one is in the middle of its parse is a different schedule from one that
        # called it earlier and waits for the lock)
        c.start_park = bool(desc.get("start_park", False))
        return c

    def learn_serial(self):
        self.serial = []
        for fn in self.fns:
            with S.Session(self.pp, self.mode, self.I, exprs=exprs_of(self)) as ses:
                self.serial.append(ses.run_serial(fn))
        return self

    def desc(self):
        if getattr(self, "_desc", None) is not None:
            return dict(self._desc, mode=list(self.mode))
        return {"mode": list(self.mode), "grammar": self.gname, "entry": self.entry, "inputs": self.inputs,
                "lr": self.lr}

    def driver_key(self, t):
        return [0, self.I.string(self.inputs[t]), t, 0]

    def learn(self):
        """serial runs (each call alone): expected outcomes + call tables for the model"""
        self.serial, rows = [], {}
        for t, fn in enumerate(self.fns):
            with S.Session(self.pp, self.mode, self.I, exprs=exprs_of(self)) as ses:
                out = ses.run_serial(fn)
            self.serial.append(out)
            dk = self.driver_key(t)
            stack = [[dk, []]]
            for _, ev in ses.trace:
                if not isinstance(ev, list):
                    continue
                if ev[0] == "cget":
                    stack[-1][1].append(ev[1])
                    if ev[2] == "none":
                        stack.append([ev[1], []])
                elif ev[0] == "cput":
                    if len(stack) < 2 or stack[-1][0] != ev[1]:
                        self.learn_ok = False
                        break
                    k, ch = stack.pop()
                    rows.setdefault(json.dumps(k), [k, True, ch, ev[2]])
                    if rows[json.dumps(k)][2] != ch:
                        self.learn_ok = False
            if len(stack) != 1:
                self.learn_ok = False
            rows[json.dumps(dk)] = [dk, False, stack[0][1], self.I.val(str(out))]
        self.rows = list(rows.values())
        return self

    def table_sexp(self):
        return [Sym("table")] + self.rows

    def roots_sexp(self):
        return [Sym("roots")] + [self.driver_key(t) for t in range(len(self.fns))]

    def line(self, cmd, gran, extra):
        sz, _ = mode_sexp(self.mode)
        return dumps(Sym(cmd)) + " " + " ".join(
            dumps(x) for x in (sz, self.table_sexp(), self.roots_sexp(), [Sym("gran"), Sym(gran)], extra))

    def forced(self, gran, sched=None, chooser=None):
        with S.Session(self.pp, self.mode, self.I, gran=gran, exprs=exprs_of(self),
                       start_park=getattr(self, "start_park", False)) as ses:
            outs, status = ses.run_controlled(self.fns, sched=sched, chooser=chooser)
        return ses, outs, status

    def impl_string(self, ses, outs, status):
        """the real run in the output syntax of `threads-run`"""
        if status == "bad-sched":
            return "bad-sched"
        res = []
        for o in outs:
            if isinstance(o, tuple) and o and o[0] == "internal":
                res.append(Sym("crash"))
            elif isinstance(o, tuple):
                res.append(Sym("unfinished"))
            else:
                res.append([Sym("done"), self.I.val(str(o))])
        return dumps([Sym("ok"), strip_mclear(ses.trace), res])

    def check_outcomes(self, ctx, outs, status, how, stats):
        """the oracle: per-thread outcome == serial outcome, no internal error, no deadlock"""
        bad = None
        if status == "bad-sched":
            # the model's schedule is not a schedule of this code: a correspondence matter, not an outcome
            stats["bad-sched"] = stats.get("bad-sched", 0) + 1
            return None
        if status == "deadlock":
            bad = "deadlock: some thread can never acquire a lock"
        else:
            for t, (o, e) in enumerate(zip(outs, self.serial)):
                if o != e:
                    bad = f"thread {t}: concurrent {o!r} != alone {e!r}"
                    break
        stats["ok" if bad is None else "bad"] = stats.get("ok" if bad is None else "bad", 0) + 1
        if bad is not None and len(ctx.fail_inputs) < 3:
            case = dict(self.desc(), **how)
            ctx.fail_input("concurrent outcome differs from serial outcome", case, self.serial,
                           [str(o) for o in outs] + [status, bad],
                           theorem="PP.Threads.concurrent_eq_serial / no_internal_error / no_deadlock",
                           how="./check C15 --replay <this file>")
        return bad


def strip_mclear(trace):
    return [e for e in trace if e[1] != "mclear"]


def strip_mclear_model(out):
    try:
        v = loads(out)
    except Exception:
        return out
    if isinstance(v, list) and len(v) == 3 and v[0] == "ok":
        return dumps([v[0], strip_mclear(v[1]), v[2]])
    return out


def validate_line(mode, trace):
    sz, memo = mode_sexp(mode)
    return " ".join(dumps(x) for x in (Sym("threads-validate"), sz, memo, [Sym("trace")] + trace))


# ------------------------------------------------------------------------------------------------
# choosers for random schedules
# ------------------------------------------------------------------------------------------------
def uniform_chooser(rng):
    return lambda en, ses: rng.choice(en)


def preempt_chooser(rng, n_threads, horizon):
    """few context switches: run one thread, switch at random points (finds windows inside a critical
    section that another thread's whole region falls into)"""
    points = sorted(rng.randrange(1, horizon) for _ in range(rng.randint(1, 3)))
    state = {"cur": rng.randrange(n_threads), "n": 0}

    def choose(en, ses):
        state["n"] += 1
        if points and state["n"] >= points[0]:
            points.pop(0)
            others = [t for t in en if t != state["cur"]]
            if others:
                state["cur"] = rng.choice(others)
        if state["cur"] not in en:
            state["cur"] = rng.choice(en)
        return state["cur"]

    return choose


def resets_first_chooser(rng, n_threads, gran):
    """LR mode: every thread first completes its reset_cache() (4 events / 1 region), then random"""
    need = {t: (1 if gran == "region" else 4) for t in range(n_threads)}

    def choose(en, ses):
        for t in sorted(need):
            if need[t] > 0 and t in en:
                need[t] -= 1
                return t
        return rng.choice(en)

    return choose


# ------------------------------------------------------------------------------------------------
# legs
# ------------------------------------------------------------------------------------------------
def case_list(ctx, pp):
    rng = ctx.subrng("cases")
    modes = [("off",), ("packrat", 0), ("packrat", 1), ("packrat", 2), ("packrat", 3), ("packrat", 128),
             ("packrat", None)]
    out = []
    for gname, ins in INPUTS.items():
        for mode in modes:
            k = ctx.budget(2, 5)
            for _ in range(k):
                n = rng.choice([2, 2, 3])
                r = rng.random()
                if r < 0.25:
                    s = rng.choice(ins)
                    inputs = [s] * n
                elif r < 0.6:
                    inputs = rng.sample(TWINS[gname], n)
                else:
                    inputs = [rng.choice(ins) for _ in range(n)]
                out.append((mode, gname, "parse", inputs))
    for gname, ins in SCAN_INPUTS.items():
        for mode in (("off",), ("packrat", 1), ("packrat", 128), ("packrat", None)):
            inputs = [rng.choice(ins) for _ in range(2)]
            out.append((mode, gname, rng.choice(["scan", "search"]), inputs))
    return out


def leg_lr_witness(ctx, pp):
    """corpus: the two registered witnesses of lr_mode_shared_memo; model (lr-run) vs real code"""
    wit = [
        ("lr_race_witness", ["1", "2"], [1, 1, 1, 1] + [0] * 16 + [1, 1, 1]),
        ("lr_reset_race_witness", ["1", "1"], [0] * 11 + [1, 1, 1] + [0]),
    ]
    cases, lines, impl = [], [], []
    for name, inputs, sched in wit:
        c = Case(pp, ("lr",), "base", "parse", inputs, lr=True).learn()
        ses, outs, status = c.forced("event", sched=list(sched))
        # rename interned values to the model's numbering: seed -> 0, body value of input label i -> i+1
        labels = {}
        for s in inputs:
            labels.setdefault(s, len(labels) + 1)
        ren = {}
        for i, canon in enumerate(c.I.val_names, 1):
            if canon.startswith("tup -1 | exc"):
                ren[i] = 0
        for s, lab in labels.items():
            v = c.I.vals.get(f"tup {len(s)} | {[s]!r} []")
            if v is not None:
                ren[v] = lab + 1
        tr = []
        for t, ev in ses.trace:
            if isinstance(ev, list) and ev[0] in ("mget", "mset") and isinstance(ev[2], int):
                ev = [ev[0], ev[1], ren.get(ev[2], 1000 + ev[2])]
            tr.append([t, ev])
        res = []
        for t, o in enumerate(outs):
            if isinstance(o, tuple) and o[0] == "internal" and o[1] == "KeyError":
                res.append(Sym("keyerror"))
            elif isinstance(o, tuple):
                res.append(Sym("unfinished"))
            else:
                # a returned value: which input's parse is it?
                lab = next((l for s, l in labels.items() if o == f"res {[s]!r} []"), 99)
                res.append([Sym("done"), lab + 1])
        # the model stops with the schedule; the real threads run on to completion afterwards
        # (in LR mode packrat_cache is the NullCache: `cclear` is a no-op whose position inside reset_cache is
        # irrelevant, so it is dropped from both traces)
        n = len(sched)
        impl_s = dumps([Sym("ok"), [e for e in tr[:n] if e[1] != "cclear"], None]).replace(" None)", ")")
        cases.append({"witness": name, "inputs": inputs, "sched": sched})
        lines.append(dumps(Sym("lr-run")) + " " + dumps([Sym("inputs")] + [labels[s] for s in inputs]) + " " +
                     dumps([Sym("sched")] + sched))
        impl.append((impl_s, res, outs, c))
    model = ctx.driver.run(lines)
    model_tr = []
    for m in model:
        try:
            v = loads(m)
            model_tr.append(dumps([v[0], [e for e in v[1] if e[1] != "cclear"]]))
        except Exception:
            model_tr.append(m)
    ctx.correspond("lr-witness-trace", cases, lines, [i[0] for i in impl], model_outputs=model_tr,
                   outcome_of=lambda c, o: c["witness"])
    # the finding itself, on the real code
    for (name, inputs, sched), (impl_s, res, outs, c), m in zip(wit, impl, model):
        wrong = [t for t, (o, e) in enumerate(zip(outs, c.serial)) if o != e]
        if wrong:
            ctx.fail_input("left-recursion mode: concurrent outcome differs from serial outcome",
                           dict(c.desc(), gran="event", sched=sched, witness=name), c.serial,
                           [str(o) for o in outs], theorem="PP.Threads.LR." + name, signature=SIG)
        try:
            mres = loads(m)[2]
        except Exception:
            mres = None
        # the model's verdict for the threads that finished within the schedule must be the real one
        agree = mres is not None and all(
            dumps(a) == dumps(b) for a, b in zip(mres, res) if dumps(a) != "unfinished")
        ctx.obligation(f"real code reproduces {name} as the model predicts", agree or not wrong,
                       f"model={m[-60:]} real={[str(o) for o in outs]}")


def leg_forced(ctx, pp, cases_spec):
    """region-exhaustive (model-enumerated) + event-granularity random schedules, modes off/packrat"""
    rng = ctx.subrng("forced")
    cases = [Case(pp, *spec).learn() for spec in cases_spec]
    for c in cases:
        if any(isinstance(o, tuple) for o in c.serial):
            ctx.fail_input("serial call raises an internal error", c.desc(), "ParseBaseException or result",
                           [str(o) for o in c.serial], theorem="(baseline)")
    cases = [c for c in cases if c.learn_ok]
    limit = ctx.budget(40, 400)
    ex_lines = [c.line("threads-explore", "region", [Sym("limit"), limit]) for c in cases]
    ex_out = ctx.driver.run_sharded(ex_lines)
    recs, lines, impl, vlines = [], [], [], []
    stats = {}
    n_ev = ctx.budget(3, 20)
    for c, eo in zip(cases, ex_out):
        try:
            scheds = loads(eo)
        except Exception:
            raise common.HarnessError(f"threads-explore: {eo[:200]}")
        jobs = [("region", s) for s in scheds]
        jobs += [("event", None)] * n_ev
        for gran, sched in jobs:
            if sched is None:
                ses, outs, status = c.forced(gran, chooser=uniform_chooser(rng))
                sched = list(ses.sched_done)
            else:
                ses, outs, status = c.forced(gran, sched=list(sched))
            how = {"gran": gran, "sched": sched}
            c.check_outcomes(ctx, outs, status, how, stats)
            recs.append(dict(c.desc(), **how))
            lines.append(c.line("threads-run", gran, [Sym("sched")] + sched))
            impl.append(c.impl_string(ses, outs, status))
            vlines.append(validate_line(c.mode, ses.trace))
    model = [strip_mclear_model(o) for o in ctx.driver.run_sharded(lines)]
    ctx.correspond("forced-schedules", recs, lines, impl, model_outputs=model,
                   nontrivial=lambda c, o: "cget" in o,
                   outcome_of=lambda c, o: f"{c['mode'][0]}-{c['gran']}")
    vout = ctx.driver.run_sharded(vlines)
    ctx.correspond("trace-validation", recs, vlines, ["ok"] * len(vlines), model_outputs=vout,
                   outcome_of=lambda c, o: f"{c['mode'][0]}-{c['gran']}")
    ctx.count_cases("oracle-forced", len(recs), outcomes=stats)
    return cases


def leg_fine(ctx, pp, cases, n_per_case, tag):
    """search: line/opcode-granularity schedules with few pre-emptions; oracle only"""
    rng = ctx.subrng("fine-" + tag)
    stats = {}
    n = 0
    for c in cases:
        for _ in range(n_per_case):
            if len(ctx.fail_inputs) >= 3:
                break
            horizon = rng.choice([30, 80, 200, 500])
            with S.Session(pp, c.mode, c.I, gran="fine", exprs=exprs_of(c)) as ses:
                outs, status = ses.run_controlled(c.fns, chooser=preempt_chooser(rng, len(c.fns), horizon))
            c.check_outcomes(ctx, outs, status, {"gran": "fine", "sched": list(ses.sched_done)}, stats)
            n += 1
    ctx.count_cases("oracle-fine-" + tag, n, outcomes=stats)


def leg_stress(ctx, pp, cases, rounds, tag):
    """search: free-running threads, tiny switch interval; oracle + trace validation"""
    stats = {}
    vlines, recs = [], []
    n = 0
    for c in cases:
        for r in range(rounds):
            if len(ctx.fail_inputs) >= 3:
                break
            reps = 6
            fns = [(lambda f=f: [f() for _ in range(reps)]) for f in c.fns]
            with S.Session(pp, c.mode, c.I, exprs=exprs_of(c)) as ses:
                outs, status = ses.run_free(fns)
            flat_bad = None
            if status == "deadlock":
                flat_bad = "deadlock"
            else:
                for t, (o, e) in enumerate(zip(outs, c.serial)):
                    if not isinstance(o, list) or any(x != e for x in o):
                        flat_bad = f"thread {t}: {o!r} != {reps} x {e!r}"
                        break
            stats["ok" if flat_bad is None else "bad"] = stats.get("ok" if flat_bad is None else "bad", 0) + 1
            n += 1
            if flat_bad and len(ctx.fail_inputs) < 3:
                ctx.fail_input("free-running threads: outcome differs from serial outcome",
                               dict(c.desc(), gran="free", reps=reps), c.serial, [str(outs)[:400], flat_bad],
                               theorem="PP.Threads.concurrent_eq_serial / no_deadlock")
            if status == "ok" and len(ses.trace) < 20000:
                vlines.append(validate_line(c.mode, ses.trace))
                recs.append(dict(c.desc(), gran="free", round=r))
            if status == "deadlock":
                break
    if vlines:
        vout = ctx.driver.run_sharded(vlines)
        ctx.correspond("trace-validation-free", recs, vlines, ["ok"] * len(vlines), model_outputs=vout,
                       outcome_of=lambda c, o: c["mode"][0])
    ctx.count_cases("oracle-stress-" + tag, n, outcomes=stats)


def leg_lr_same_input(ctx, pp):
    """LR mode, the region kept outside the known finding: all threads parse the SAME input and every
    thread's reset_cache() completes before the first memo access; oracle + trace validation"""
    rng = ctx.subrng("lr-same")
    stats = {}
    vlines, recs = [], []
    n_sched = ctx.budget(12, 80)
    for gname, ins in LR_INPUTS.items():
        for s in ins:
            for n in (2, 3):
                c = Case(pp, ("lr",), gname, "parse", [s] * n, lr=True).learn()
                for i in range(n_sched):
                    gran = "region" if i % 3 == 0 else "event"
                    ses, outs, status = c.forced(gran, chooser=resets_first_chooser(rng, n, gran))
                    how = {"gran": gran, "sched": list(ses.sched_done)}
                    c.check_outcomes(ctx, outs, status, how, stats)
                    vlines.append(validate_line(c.mode, ses.trace))
                    recs.append(dict(c.desc(), **how))
    vout = ctx.driver.run_sharded(vlines)
    ctx.correspond("trace-validation-lr", recs, vlines, ["ok"] * len(vlines), model_outputs=vout,
                   outcome_of=lambda c, o: c["gran"])
    ctx.count_cases("oracle-lr-same-input", len(recs), outcomes=stats)


# ------------------------------------------------------------------------------------------------
# scenarios with context-dependent parse actions and with lazily consumed scan_string generators
# ------------------------------------------------------------------------------------------------
SIG_EQ = "packrat_equal_input_shared_entries"
_tl = threading.local()


def _tag(t):
    return f"{getattr(_tl, 'name', '?')}:{t[0]}"


def _pause(t):
    ses = S.current()
    if ses is not None:
        ses.yield_point("act")


def tagged_grammars(pp):
    item = lambda: pp.Word(pp.alphas).add_parse_action(_pause, _tag)
    num = lambda: pp.Word(pp.nums).add_parse_action(_pause, _tag)
    return {
        "seq3": lambda: item() + item() + item(),
        "backtrack": lambda: (lambda a, b: (a + b + pp.Literal("!")) | (a + b + item()))(item(), item()),
        "groups": lambda: pp.Group(item() + pp.Opt(num()))[1, ...],
    }


TAGGED_INPUTS = {"seq3": ["alpha", "beta", "gamma"], "backtrack": ["alpha", "beta", "gamma"],
                 "groups": ["a", "1", "b", "c", "2"]}


def tagged_case(pp, mode, gname, n, distinct=False, start_park=False):
    """n threads parse VALUE-EQUAL (but distinct) strings with a shared grammar whose actions tag every token with
    the calling thread's name (thread-local context): run alone, call t returns only T<t>:... tokens"""
    expr = tagged_grammars(pp)[gname]()
    words = TAGGED_INPUTS[gname]
    inputs = [" ".join(words if not (distinct and t == n - 1) else list(reversed(words))) for t in range(n)]

    def mk(t, s):
        def fn():
            _tl.name = f"T{t}"
            return outcome_of(pp, lambda: "res " + S.canon_results(expr.parse_string(s)))
        return fn

    desc = {"scenario": "tagged", "grammar": gname, "inputs": inputs, "n": n, "distinct": distinct,
            "start_park": start_park}
    return Case.custom(pp, mode, desc, [mk(t, s) for t, s in enumerate(inputs)]).learn_serial()


PIPE_TEXT = "junk a=1 ; bb=22 ;; ccc=333 trailing"


def pipeline_case(pp, mode, n_workers):
    """thread 0 consumes record.scan_string(TEXT) lazily and, after match i (i < n_workers), waits for worker
    thread i+1 (which parses that record with parse_string on shared sub-expressions) before asking for the next
    match; run alone every call terminates at once"""
    integer = pp.Word(pp.nums).add_parse_action(lambda t: int(t[0]))
    name = pp.Word(pp.alphas)
    record = pp.Group(name("key") + pp.Suppress("=") + integer("value"))
    detail = name("key") + pp.Suppress("=") + integer("value")
    pieces = ["a=1", "bb=22", "ccc=333"][:n_workers]

    def consumer():
        out = []
        i = 0
        gen = record.scan_string(PIPE_TEXT)
        try:
            for toks, st, en in gen:
                out.append((S.canon_results(toks), st, en))
                ses = S.current()
                if ses is not None and i < n_workers:
                    ses.wait_for([i + 1])
                i += 1
        finally:
            gen.close()
        return "scan " + repr(out)

    def worker(piece):
        return lambda: outcome_of(pp, lambda: "res " + S.canon_results(detail.parse_string(piece, parse_all=True)))

    desc = {"scenario": "pipeline", "grammar": "record", "inputs": [PIPE_TEXT] + pieces, "n_workers": n_workers}
    return Case.custom(pp, mode, desc, [consumer] + [worker(p) for p in pieces]).learn_serial()


def build_scenario(pp, case):
    if case["scenario"] == "tagged":
        return tagged_case(pp, case["mode"], case["grammar"], case["n"], case.get("distinct", False),
                           case.get("start_park", False))
    if case["scenario"] == "pipeline":
        return pipeline_case(pp, case["mode"], case["n_workers"])
    raise ValueError(case["scenario"])


def directed_chooser(first, k, kind):
    """thread `first` runs alone until it is parked for the k-th time at a `kind` yield point (inside a parse
    action / between two matches); then every other thread runs as far as it can (lowest id first); then the
    rest.  On code that holds packrat_cache_lock across a call the others simply cannot run meanwhile."""
    st = {"phase": 1, "cnt": 0}

    def choose(en, ses):
        if st["phase"] == 1:
            w = ses.workers[first]
            if w.pending is not None and w.pending[0] == kind:
                st["cnt"] += 1
            if st["cnt"] >= k or first not in en:
                st["phase"] = 2
            else:
                return first
        if st["phase"] == 2:
            others = [t for t in en if t != first]
            if others:
                return others[0]
            st["phase"] = 3
        return en[0]

    return choose


def count_yields(c, t, kind):
    """how often thread t parks at `kind` when it runs alone under the scheduler"""
    n = [0]

    def ch(en, ses):
        w = ses.workers[0]
        if w.pending is not None and w.pending[0] == kind:
            n[0] += 1
        return en[0]

    with S.Session(c.pp, c.mode, c.I, gran="region", exprs=exprs_of(c)) as ses:
        ses.run_controlled([c.fns[t]], chooser=ch)
    return n[0]


def leg_tagged(ctx, pp):
    """context-dependent parse actions + equal inputs: 'each call returns exactly what it returns alone' is
    observable under packrat.  Schedules: thread A suspended inside its k-th parse action while the others run
    as far as the code lets them (all A, all k).  Kept OUT of the region of the known finding SIG_EQ (a call
    whose reset_cache() and parse are separated by another thread's COMPLETE parse of an equal string)."""
    stats = {}
    n_cases = 0
    # corpus: the registered witness of SIG_EQ
    c = tagged_case(pp, ("packrat", 128), "seq3", 2)
    st = {"n": 0}

    def witness_order(en, ses):  # T1 reset_cache; then T0 everything (reset + whole parse); then T1
        st["n"] += 1
        if st["n"] == 1:
            return 1
        return 0 if 0 in en else en[0]

    ses, outs, status = c.forced("region", chooser=witness_order)
    if status == "ok" and outs != c.serial:
        ctx.fail_input("packrat: a call on an equal input string is served another call's cached tokens",
                       dict(c.desc(), gran="region", sched=list(ses.sched_done)), c.serial, [str(o) for o in outs],
                       theorem="(outside the model's hypothesis: element behaviour must be a function of its key)",
                       signature=SIG_EQ)
    modes = [("packrat", 128), ("packrat", None), ("packrat", 2), ("packrat", 0), ("off",)]
    for gname in tagged_grammars(pp):
        for mode in modes:
            for n, distinct in ((2, False), (3, False), (3, True)):
                # start_park False: the other threads have already called parse_string() and wait for the lock in
                # their entry reset_cache(); True: they CALL parse_string() while `first` is in the middle of its parse
                for sp in (False, True):
                    c = tagged_case(pp, mode, gname, n, distinct, start_park=sp)
                    for first in range(n):
                        ky = count_yields(c, first, "act")
                        for k in range(1, ky + 1):
                            if len(ctx.fail_inputs) >= 3:
                                break
                            ses, outs, status = c.forced("region", chooser=directed_chooser(first, k, "act"))
                            c.check_outcomes(ctx, outs, status, {"gran": "region", "sched": list(ses.sched_done),
                                                                 "suspended": [first, k]}, stats)
                            n_cases += 1
    ctx.count_cases("oracle-tagged-actions", n_cases, outcomes=stats,
                    distinct_keys=[f"{g}|{m}" for g in tagged_grammars(pp) for m in modes],
                    samples=[{"scenario": "tagged", "grammar": "seq3", "n": 2, "suspended": [0, 1]}])


def leg_pipeline(ctx, pp):
    """lazily consumed scan_string generator whose consumer waits for another thread's parse between matches:
    nothing may deadlock (a suspended generator must not keep a lock another call needs)"""
    rng = ctx.subrng("pipeline")
    stats = {}
    n_cases = 0
    for mode in (("off",), ("packrat", 128), ("packrat", 1), ("packrat", None)):
        for nw in (1, 2, 3):
            c = pipeline_case(pp, mode, nw)
            jobs = [directed_chooser(0, k, "wait") for k in range(1, nw + 1)]
            jobs += [uniform_chooser(rng) for _ in range(ctx.budget(3, 12))]
            for ch in jobs:
                if len(ctx.fail_inputs) >= 3:
                    break
                ses, outs, status = c.forced("region", chooser=ch)
                c.check_outcomes(ctx, outs, status, {"gran": "region", "sched": list(ses.sched_done)}, stats)
                n_cases += 1
    ctx.count_cases("oracle-scan-pipeline", n_cases, outcomes=stats,
                    samples=[{"scenario": "pipeline", "n_workers": 2, "text": PIPE_TEXT}])


def run(ctx):
    pp = common.import_pyparsing()
    names, n_inst, fwd_ok, n_fwd = lock_facts(pp)
    ctx.notes["lock_facts"] = {"class_locks": names, "instance_locks": n_inst, "forwards_probed": n_fwd,
                               "forward_uses_class_lock": fwd_ok}
    ctx.proof_leg("PPProofs.Props.C15", THEOREMS, generated={GEN_REL: gen_lock_facts(names, n_inst, fwd_ok)})
    ctx.assumptions += [
        "C15: a single dict operation is atomic (GIL) and threading.RLock is a correct re-entrant lock",
        "C15: left-recursion mode is covered only by the two registered witnesses of lr_mode_shared_memo and by "
        "same-input runs whose reset_cache() calls all precede the first memo access (oracle only)",
    ]
    ctx.rule.append(
        "forced-schedules: 5 grammar shapes x generated input tuples (2-3 threads, equal and different inputs) x "
        "modes off/packrat(0,1,2,3,128,None) x ALL region-granularity interleavings enumerated by the model "
        "(limit per case) + random event-granularity schedules; non-trivial = trace contains a cache lookup; "
        "scan_string/search_string cases included; fine = line/opcode pre-emption inside _parseCache, "
        "reset_cache, Forward.parseImpl and the cache/memo methods; stress = free-running, switchinterval 1e-6; "
        "nested = 6 grammar shapes whose action/condition re-parses the match through a shared sub-grammar (4 entry "
        "points, depth 1-2) x 2-3 threads x modes off/packrat(0,2,128,None)/left-recursion: depth-first search over "
        "all lock-region interleavings of the real code (limit per case) + placements at lock operations; "
        "non-trivial = some thread performs a nested reset_cache()")
    # corpus first
    import time as _t
    tm = ctx.notes.setdefault("leg_seconds", {})

    def timed(name, f, *a):
        t0 = _t.time()
        r = f(*a)
        tm[name] = round(tm.get(name, 0) + _t.time() - t0, 1)
        return r

    timed("lr_witness", leg_lr_witness, ctx, pp)
    timed("tagged", leg_tagged, ctx, pp)
    timed("pipeline", leg_pipeline, ctx, pp)
    this = sys.modules[__name__]
    timed("nested", N.leg_nested, ctx, this, pp)
    cases = timed("forced", leg_forced, ctx, pp, case_list(ctx, pp))
    timed("lr_same_input", leg_lr_same_input, ctx, pp)
    small = [c for c in cases if c.mode in (("packrat", 0), ("packrat", 1), ("packrat", 2), ("off",))]
    timed("fine", leg_fine, ctx, pp, small[:: max(1, len(small) // ctx.budget(30, 120))], ctx.budget(8, 30), "base")
    timed("stress", leg_stress, ctx, pp, cases[:: max(1, len(cases) // ctx.budget(16, 80))], ctx.budget(2, 6), "base")
    # parse_all=True builds `Empty() + StringEnd()` afresh per call (fresh cache keys), so it is outside the
    # table-driven model runs: oracle only (region schedules + stress)
    rng = ctx.subrng("parse-all")
    pa = []
    for gname, ins in INPUTS.items():
        for mode in (("off",), ("packrat", 1), ("packrat", 128)):
            pa.append(Case(pp, mode, gname, "parse_all", [rng.choice(ins), rng.choice(TWINS[gname])]).learn())
    stats = {}
    for c in pa:
        for _ in range(ctx.budget(4, 20)):
            ses, outs, status = c.forced("region", chooser=uniform_chooser(rng))
            c.check_outcomes(ctx, outs, status, {"gran": "region", "sched": list(ses.sched_done)}, stats)
    ctx.count_cases("oracle-parse-all", sum(stats.values()), outcomes=stats)
    leg_stress(ctx, pp, pa[::3], ctx.budget(1, 4), "parse-all")
    if ctx.broken and not ctx.fail_inputs:
        # a proof obligation / trace validation / correspondence broke: search harder for a failing input
        timed("nested_search", N.leg_nested, ctx, this, pp, True)
    if ctx.broken and not ctx.fail_inputs:
        leg_fine(ctx, pp, small, ctx.budget(25, 100), "search")
        if not ctx.fail_inputs:
            leg_stress(ctx, pp, cases, ctx.budget(4, 12), "search")


def replay(data):
    pp = common.import_pyparsing()
    case = data.get("case") or {}
    if "grammar" not in case:
        ctx = common.Ctx("C15", "quick", data.get("seed", 0))
        run(ctx)
        return bool(ctx.broken or ctx.fail_inputs)
    if case.get("scenario") == "nested":
        c = N.build(sys.modules[__name__], pp, case)
    elif case.get("scenario") in ("tagged", "pipeline"):
        c = build_scenario(pp, case)
    else:
        c = Case(pp, case["mode"], case["grammar"], case["entry"], case["inputs"], lr=case.get("lr", False)).learn()
    gran = case.get("gran", "region")
    if gran == "free":
        for _ in range(30):
            reps = case.get("reps", 6)
            fns = [(lambda f=f: [f() for _ in range(reps)]) for f in c.fns]
            with S.Session(pp, c.mode, c.I, exprs=exprs_of(c)) as ses:
                outs, status = ses.run_free(fns)
            if status == "deadlock" or any(
                    not isinstance(o, list) or any(x != e for x in o) for o, e in zip(outs, c.serial)):
                return True
        return False
    with S.Session(pp, c.mode, c.I, gran=gran, exprs=exprs_of(c),
                   start_park=getattr(c, "start_park", False)) as ses:
        outs, status = ses.run_controlled(c.fns, sched=list(case["sched"]))
    print("serial  :", c.serial)
    print("threads :", outs, status)
    if status == "bad-sched":
        return False
    return status == "deadlock" or outs != c.serial
