"""C14 — reported locations index the parsed string and agree with line/column.

proof:           lean/PPProofs/Props/C14.lean (col/lineno/line consistency for all s, loc; expandtabs)
correspondence:  PPModel.Mod.LineCol (driver: linecol / expandtabs) vs pyparsing.util.col/lineno/line,
                 ParseBaseException.{col,column,lineno,line}, str.expandtabs as used by parse_string;
                 exhaustive over a small alphabet + random longer strings
search (oracle): the theorem statements executed on the real functions; slice identities of the
                 locations reported by the real parser (actions, scan_string, Located, original_text_for,
                 exceptions), with and without parse_with_tabs
"""
from __future__ import annotations

import sys

import itertools

from .. import common
from ..sexp import Sym, line as sx, loads

META = dict(
    text="Lean theorems (PPProofs/Props/C14.lean) prove for ALL strings and all loc<=len that col, lineno and line "
         "describe one and the same line (unique line start, 1-based offset, newline count, line text), and that "
         "expandtabs output is tab-free and idempotent; the Lean model is a statement-by-statement transcription of "
         "util.col/lineno/line and is tied to the code two ways on every check: (a) TRANSLATOR tie - harness/py2lean.py "
         "re-translates the live source text of util.col/lineno/line (ast -> Lean over the CPython-builtin semantics "
         "PPModel/Base/PyStr.lean) into Props/Gen/UtilSrc.lean, and src_col_eq / src_lineno_eq / src_line_eq "
         "(PPProofs/Props/C14Src.lean) prove for ALL strings and locations that the hand-written model computes exactly "
         "what the translated source computes (src_col_index_in_range: the only index expression is evaluated in "
         "range), so the property theorems are theorems about the current source of these three functions modulo "
         "PyStr; (b) an exhaustive small-alphabet + random differential run. Parser-reported locations (actions, scan_string, Located, original_text_for, exceptions) are "
         "partial: decided by slice-identity oracles on the real code and by the parse-model correspondence.",
    note="Trusted: Lean kernel; axioms propext/Classical.choice/Quot.sound; the translator harness/py2lean.py "
         "(PyLite subset; anything else is a broken obligation) and PPModel/Base/PyStr.lean as the reading of CPython "
         "len/index/slice/find/rfind/count (validated against CPython itself on every run, stream pystr-vs-cpython); "
         "lru_cache is assumed transparent (oracle: answers independent of query order); the expandtabs model "
         "(checked differentially). Parser location clauses are oracle-checked only.",
    technique="Lean 4 proof over a model proved equal to the machine-translated source of util.py (translator tie) + differential correspondence",
    design="§5 C14",
)

THEOREMS = [
    "PP.LineCol.C14_linecol_consistent",
    "PP.LineCol.IsLineStart.unique",
    "PP.LineCol.col_is_offset",
    "PP.LineCol.loc_on_line",
    "PP.LineCol.lineno_counts_newlines",
    "PP.LineCol.lineno_of_lineStart",
    "PP.LineCol.line_is_the_line",
    "PP.LineCol.line_no_newline",
    "PP.LineCol.col_le_line_length",
    "PP.LineCol.expandTabs_no_tab",
    "PP.LineCol.expandTabs_idem",
]

# translator tie (harness/py2lean.py): the live source of util.col/lineno/line, translated on every run into
# lean/PPProofs/Props/Gen/UtilSrc.lean, is proved equal to the hand-written model for all strings and locations
SRC_THEOREMS = [
    "PP.LineCol.src_col_eq",
    "PP.LineCol.src_lineno_eq",
    "PP.LineCol.src_line_eq",
    "PP.LineCol.src_col_index_in_range",
]
THEOREMS = THEOREMS + SRC_THEOREMS

ALPHA = ["a", "\n", "\r", "\t"]


def _strings(ctx):
    L = ctx.budget(5, 7)
    out = []
    for n in range(L + 1):
        for t in itertools.product(ALPHA, repeat=n):
            out.append("".join(t))
    rng = ctx.subrng("strings")
    alpha2 = ["a", "b", " ", "\n", "\n", "\r", "\t", "é", "x", "\\", '"']
    for _ in range(ctx.budget(400, 4000)):
        n = rng.randint(6, 40)
        out.append("".join(rng.choice(alpha2) for _ in range(n)))
    return out


def _impl_linecol(pp, s, loc):
    """canonical output of the real code; every accessor must agree with util.*"""
    c, ln, li = pp.col(loc, s), pp.lineno(loc, s), pp.line(loc, s)
    pe = pp.ParseException(s, loc, "m")
    views = {(pe.col, pe.lineno, pe.line), (pe.column, pe.lineno, pe.line), (c, ln, li)}
    if len(views) != 1:
        return f"inconsistent-accessors {sorted(map(repr, views))}"
    return sx([c, ln, li])


def oracle_linecol(pp, s, loc):
    """C14_linecol_consistent executed on the real functions; returns None or a description"""
    c, ln, li = pp.col(loc, s), pp.lineno(loc, s), pp.line(loc, s)
    b = loc + 1 - c
    if not (1 <= c <= loc + 1):
        return f"col {c} outside 1..loc+1"
    if not (b == 0 or s[b - 1] == "\n"):
        return f"loc+1-col={b} is not a line start"
    if "\n" in s[b:loc]:
        return f"newline between line start {b} and loc {loc}"
    if ln != s[:b].count("\n") + 1:
        return f"lineno {ln} != newlines before line start + 1 = {s[:b].count(chr(10)) + 1}"
    want = s[b:].split("\n", 1)[0]
    if li != want:
        return f"line {li!r} != text of the line {want!r}"
    if c > len(li) + 1:
        return f"col {c} beyond line length {len(li)}+1"
    return None


# ---- locations reported by the parser ---------------------------------------------------------
def _grammars(pp):
    """(name, factory) — small battery exercising every place a location is reported"""
    W = lambda: pp.Word("ab")
    N = lambda: pp.Word("01")
    return [
        ("word", lambda: W()),
        ("seq", lambda: W() + N()),
        ("group", lambda: pp.Group(W() + pp.Opt(N()))),
        ("alt", lambda: N() | W() + N() | W()),
        ("or", lambda: (W() ^ (W() + N()))),
        ("rep", lambda: pp.OneOrMore(W() | N())),
        ("lit", lambda: pp.Literal("ab") + pp.Literal("\t") .leave_whitespace() if False else pp.Literal("ab")),
        ("comb", lambda: pp.Combine(W() + N())),
        ("delim", lambda: pp.DelimitedList(W(), delim=",")),
        ("quoted", lambda: pp.QuotedString('"')),
        ("lineend", lambda: W() + pp.LineEnd()),
        ("skipto", lambda: pp.SkipTo(N()) + N()),
    ]


def _inputs(ctx):
    rng = ctx.subrng("parse-inputs")
    pieces = ["ab", "a", "b", "01", "1", " ", " ", "\t", "\n", "\r\n", ",", '"a\tb"', "\t\t", "x"]
    out = ["", " ", "\t", "\tab", "ab\t01", "a\tb", "\n\tab 01", "ab,\tab", "\t\"a\tb\"", "ab\n"]
    for _ in range(ctx.budget(60, 400)):
        out.append("".join(rng.choice(pieces) for _ in range(rng.randint(1, 7))))
    return out


def oracle_parse_locs(pp, gname, mk, s, keep_tabs):
    """slice identities on the real parser; returns list of problem descriptions"""
    probs = []
    parsed = s if keep_tabs else s.expandtabs()
    seen = []

    def rec(st, loc, toks):
        seen.append((st, loc))

    def build(wrap_located=False, orig=False):
        e = mk()
        if keep_tabs:
            e = e.copy().parse_with_tabs()
        return e

    # 1. action loc + string argument
    e = build().copy()
    e.add_parse_action(rec)
    if keep_tabs:
        e.parse_with_tabs()
    try:
        r = e.parse_string(s)
        ok = True
    except pp.ParseBaseException as pe:
        ok = False
        if not (0 <= pe.loc <= len(parsed) + 1):
            probs.append(f"exception loc {pe.loc} outside parsed string of length {len(parsed)}")
        if pe.pstr != parsed:
            probs.append("exception pstr is not the parsed string")
        else:
            if pe.loc <= len(parsed):
                d = oracle_linecol(pp, pe.pstr, pe.loc)
                if d:
                    probs.append("exception line/col: " + d)
                # the exception's own accessors are the module-level functions at (loc, pstr)
                want = (pp.lineno(pe.loc, pe.pstr), pp.col(pe.loc, pe.pstr), pp.line(pe.loc, pe.pstr))
                got = (pe.lineno, pe.col, pe.line)
                if got != want or pe.column != pe.col:
                    probs.append(f"exception (lineno, col, line) = {got!r}, lineno()/col()/line() at loc {pe.loc} give {want!r}")
    for st, loc in seen:
        if st != parsed:
            probs.append(f"action got string {st!r}, parsed string is {parsed!r}")
        elif not (0 <= loc <= len(parsed)):
            probs.append(f"action loc {loc} out of range")
    # 2. scan_string slices / Located / original_text_for
    e2 = build()
    try:
        for toks, st, en in e2.scan_string(s):
            if not (0 <= st <= en <= len(parsed) + 1):
                probs.append(f"scan_string bounds {st},{en} outside 0..{len(parsed)}")
            o = pp.original_text_for(mk())
            if keep_tabs:
                o.parse_with_tabs()
    except pp.ParseBaseException:
        pass
    loc_e = pp.Located(mk())
    if keep_tabs:
        loc_e.parse_with_tabs()
    try:
        for toks, st, en in loc_e.scan_string(s):
            ls, le = toks["locn_start"], toks["locn_end"]
            if (ls, le) != (st, en):
                probs.append(f"Located {ls},{le} != scan_string {st},{en}")
    except pp.ParseBaseException:
        pass
    # Located through parse_string: locn_start is the match start AFTER leading whitespace (also for alternations)
    loc_p = pp.Located(mk())
    if keep_tabs:
        loc_p.parse_with_tabs()
    try:
        r = loc_p.parse_string(s)
        ls, le = r["locn_start"], r["locn_end"]
        if mk().skipWhitespace and ls < le and ls < len(parsed) and parsed[ls] in " \t\r\n" and gname not in ("quoted", "skipto"):
            probs.append(f"Located start {ls} points at whitespace: parsed[{ls}:{le}]={parsed[ls:le]!r}")
    except pp.ParseBaseException:
        pass
    if gname not in ("lineend",):
        ot = pp.original_text_for(mk())
        if keep_tabs:
            ot.parse_with_tabs()
        try:
            for toks, st, en in ot.scan_string(s):
                if list(toks) != [parsed[st:en]]:
                    probs.append(f"original_text_for {list(toks)!r} != parsed[{st}:{en}]={parsed[st:en]!r}")
        except pp.ParseBaseException:
            pass
    # 2b. original_text_for(expr) == the slice Located(expr) reports, also when ignorables were added afterwards and a
    #     comment directly follows the match
    if gname not in ("lineend", "quoted"):
        def wrap(w):
            g = (w(mk()) + pp.Suppress(pp.Opt(";")))[1, ...]
            g.ignore(pp.c_style_comment)
            if keep_tabs:
                g.parse_with_tabs()
            return g
        s2 = s + " /* c */ ;" if s.strip() else s
        parsed2 = s2 if keep_tabs else s2.expandtabs()
        try:
            texts = [t for t in wrap(pp.original_text_for).parse_string(s2)]
            spans = [(t.locn_start, t.locn_end) for t in wrap(lambda e: pp.Group(pp.Located(e))).parse_string(s2)]
            want = [parsed2[a:b] for a, b in spans]
            if texts != want:
                probs.append(f"original_text_for {texts!r} != slices reported by Located {want!r} (with ignore(c_style_comment))")
        except pp.ParseBaseException:
            pass
    # 3. leaf slices: Word/Literal tokens are the text between start and end
    if gname in ("word", "lit"):
        try:
            for toks, st, en in build().scan_string(s):
                if "".join(toks) != parsed[st:en]:
                    probs.append(f"leaf token {list(toks)!r} != parsed[{st}:{en}]={parsed[st:en]!r}")
        except pp.ParseBaseException:
            pass
        # 4. transform_string works on the ORIGINAL text (it keeps tabs): its output is the original string with each
        #    span that a tab-keeping scan_string reports replaced by the action's result
        if not keep_tabs:
            try:
                e4 = mk().copy()
                e4.add_parse_action(lambda t: "<" + "".join(t) + ">")
                got = e4.transform_string(s)
                k = mk().copy().parse_with_tabs()
                out, last = [], 0
                for toks, st, en in k.scan_string(s):
                    out += [s[last:st], "<" + "".join(toks) + ">"]
                    last = en
                out.append(s[last:])
                if got != "".join(out):
                    probs.append(f"transform_string {got!r} != original text with the tab-keeping scan spans replaced {''.join(out)!r}")
            except pp.ParseBaseException:
                pass
    return probs


def _pystr_validation(ctx):
    """PPModel/Base/PyStr.lean (the CPython-builtin semantics the translated source is expressed in) against CPython
    itself: find / rfind / count with a one-character needle, slicing, indexing — bounds negative, beyond the end, None"""
    rng = ctx.subrng("pystr")
    cases, lines, impl = [], [], []

    def bound(n):
        r = rng.random()
        if r < 0.2:
            return None
        return rng.randint(-n - 3, n + 3)

    def b(x):
        return Sym("N") if x is None else x

    for k in range(ctx.budget(4000, 40000)):
        n = rng.randint(0, 9)
        s = "".join(rng.choice(["a", "\n", "b", "\n", "é"]) for _ in range(n))
        c = rng.choice(["\n", "a", "z"])
        lo, hi = bound(n), bound(n)
        op = ("find", "rfind", "count", "slice", "item", "len", "startswith", "in", "scan", "min")[k % 10]
        if op in ("find", "rfind", "count"):
            lines.append(sx(Sym("pystr"), Sym(op), s, c, b(lo), b(hi)))
            impl.append(sx(getattr(s, op)(c, lo, hi)))
        elif op == "slice":
            lines.append(sx(Sym("pystr"), Sym(op), s, b(lo), b(hi)))
            impl.append(sx(s[lo:hi]))
        elif op == "item":
            i = rng.randint(-n - 2, n + 2)
            lo = i
            lines.append(sx(Sym("pystr"), Sym(op), s, i))
            try:
                impl.append(sx(s[i]))
            except IndexError:
                impl.append(sx(Sym("IndexError")))
        elif op == "startswith":
            pfx = rng.choice(["", "a", "\n", "ab", s[max(0, (lo or 0)):][:2], s[:1]])
            c = pfx
            hi = None
            lines.append(sx(Sym("pystr"), Sym(op), s, pfx, b(lo)))
            impl.append(sx(Sym("T" if (s.startswith(pfx) if lo is None else s.startswith(pfx, lo)) else "F")))
        elif op == "in":
            x = rng.choice(["a", "\n", "z", "é"])
            c = x
            lines.append(sx(Sym("pystr"), Sym(op), x, s))
            impl.append(sx(Sym("T" if x in set(s) else "F")))
        elif op == "scan":
            # Py.scanWhile against the Python loop itself (the statement shape py2lean translates), bounds negative /
            # beyond the end included: `while loc < B and s[loc] (not) in cs: loc += 1`
            cs = set(rng.choice(["a", "\n", "ab", "a\né", "z", ""]))
            neg = rng.random() < 0.5
            loc, B = rng.randint(-n - 2, n + 2), rng.randint(-n - 2, n + 3)
            c, lo, hi = "".join(sorted(cs)) + ("!" if neg else ""), loc, B
            lines.append(sx(Sym("pystr"), Sym(op), s, "".join(sorted(cs)), Sym("T" if neg else "F"), loc, B))
            try:
                if neg:
                    while loc < B and s[loc] not in cs:
                        loc += 1
                else:
                    while loc < B and s[loc] in cs:
                        loc += 1
                impl.append(sx(loc))
            except IndexError:
                impl.append(sx(Sym("IndexError")))
        elif op == "min":
            lo, hi = rng.randint(-12, 12), rng.choice([rng.randint(-12, 12), sys.maxsize, sys.maxsize + rng.randint(0, 9)])
            lines.append(sx(Sym("pystr"), Sym(op), lo, hi))
            impl.append(sx(min(lo, hi)))
        else:
            lines.append(sx(Sym("pystr"), Sym(op), s))
            impl.append(sx(len(s)))
        cases.append([op, s, c, lo, hi])
    ctx.correspond("pystr-vs-cpython", cases, lines, impl, nontrivial=lambda c, o: len(c[1]) > 0,
                   outcome_of=lambda c, o: c[0])


def run(ctx):
    pp = common.import_pyparsing()
    # ---- translator tie: regenerate Gen/UtilSrc.lean from the live source text ----------------
    from .. import py2lean
    from pyparsing import util as pp_util
    generated = {}
    try:
        generated["PPProofs/Props/Gen/UtilSrc.lean"] = py2lean.translate(
            [pp_util.col, pp_util.lineno, pp_util.line], "PP.Gen.UtilSrc", "pyparsing/util.py")
        ctx.obligation("util.col/lineno/line lie in the translatable subset (PyLite)", True, "translated")
    except (py2lean.Untranslatable, OSError, TypeError, SyntaxError, IndexError) as ex:
        # the source left the subset: the translated definitions of the last run stay in place, the tie is broken
        ctx.obligation("util.col/lineno/line lie in the translatable subset (PyLite)", False, str(ex)[:300])
    ctx.proof_leg("PPProofs.Props.C14", THEOREMS, generated=generated, extra_modules=("PPProofs.Props.C14Src",))
    _pystr_validation(ctx)
    ctx.rule.append(
        "linecol: all strings of length<=L over {a,\\n,\\r,\\t} x all loc in 0..len+1, plus random strings "
        "(len 6..40, incl. é, quotes, backslash); non-trivial = string contains a newline or tab; "
        "parse-locs: battery of 12 grammar shapes x generated inputs with tabs/newlines x keep_tabs on/off"
    )
    # ---- correspondence: col / lineno / line ------------------------------------------------
    strings = _strings(ctx)
    cases, lines, impl = [], [], []
    for s in strings:
        for loc in range(len(s) + 2):
            cases.append([loc, s])
            lines.append(sx(Sym("linecol"), loc, s))
            impl.append(_impl_linecol(pp, s, loc))
    diffs = ctx.correspond("linecol", cases, lines, impl, nontrivial=lambda c, o: "\n" in c[1] or "\t" in c[1],
                          outcome_of=lambda c, o: f"len{min(len(c[1]), 8)}{'+nl' if chr(10) in c[1] else ''}")
    # ---- the answers do not depend on the order of the questions (lineno/col/line are functions of (loc, string)):
    #      fresh strings (nothing cached yet), locations asked descending / shuffled, interleaved with another string
    rng_o = ctx.subrng("linecol-order")
    n_ord, bad_ord = 0, None
    for k in range(ctx.budget(150, 1500)):
        body = "".join(rng_o.choice(["a", "b", "\n", "\n", " ", "\t", "x"]) for _ in range(rng_o.randint(4, 30)))
        s1 = f"{body}#{ctx.seed}-{k}"          # unique text: no cache entry exists for it
        s2 = f"{k}-{ctx.seed}\n{body}"
        locs = list(range(len(s1) + 1))
        order = locs[::-1] if k % 2 == 0 else rng_o.sample(locs, len(locs))
        for j, loc in enumerate(order):
            if j % 3 == 1:
                pp.lineno(min(loc, len(s2)), s2)
            n_ord += 1
            got = (pp.lineno(loc, s1), pp.col(loc, s1), pp.line(loc, s1))
            b = s1.rfind("\n", 0, loc) + 1
            want = (s1.count("\n", 0, loc) + 1, loc - b + 1, s1[b:].split("\n", 1)[0])
            if got != want and bad_ord is None:
                bad_ord = ({"string": s1, "order": order[: j + 1]}, want, got)
    ctx.count_cases("oracle:linecol-any-order", n_ord, outcomes={"queries": n_ord})
    if bad_ord:
        ctx.fail_input("lineno/col/line depend on the order of the queries", {"order_case": True, **bad_ord[0]}, bad_ord[1], bad_ord[2],
                       theorem="C14_linecol_consistent (functions of (loc, string))")
    # ---- correspondence: expandtabs ----------------------------------------------------------
    cases2 = [[s] for s in strings]
    lines2 = [sx(Sym("expandtabs"), s) for s in strings]
    impl2 = [sx(s.expandtabs()) for s in strings]
    seen_by_parser = []
    # what parse_string really parses: capture through an action on Empty
    probe = pp.Empty().add_parse_action(lambda st, l, t: seen_by_parser.append(st))
    for k, s in enumerate(strings[:: max(1, len(strings) // 300)]):
        seen_by_parser.clear()
        probe.parse_string(s)
        if seen_by_parser and seen_by_parser[0] != s.expandtabs():
            ctx.fail_input("parse_string does not parse the tab-expanded copy", {"s": s}, s.expandtabs(),
                           seen_by_parser[0], theorem="expandTabs (model of str.expandtabs used by parse_string)")
    diffs2 = ctx.correspond("expandtabs", cases2, lines2, impl2, nontrivial=lambda c, o: "\t" in c[0],
                           outcome_of=lambda c, o: "tabs" if "\t" in c[0] else "no-tabs")
    # ---- search / oracle on the real functions (always run; it asserts exactly the theorem) --
    n = 0
    for s in strings:
        for loc in range(len(s) + 1):
            n += 1
            d = oracle_linecol(pp, s, loc)
            if d:
                ctx.fail_input("col/lineno/line inconsistent", {"s": s, "loc": loc}, "C14_linecol_consistent", d,
                               theorem="PP.LineCol.C14_linecol_consistent",
                               how="pyparsing.col/lineno/line(loc, s)")
                break
        if len(ctx.fail_inputs) >= 3:
            break
    ctx.count_cases("oracle-linecol", n)
    # ---- parser-reported locations ------------------------------------------------------------
    inputs = _inputs(ctx)
    n = 0
    outcomes = {}
    for gname, mk in _grammars(pp):
        for s in inputs:
            for keep in (False, True):
                n += 1
                try:
                    probs = common.with_alarm(5, oracle_parse_locs, pp, gname, mk, s, keep)
                except common.CaseTimeout:
                    probs = ["hang"]
                outcomes["ok" if not probs else "problem"] = outcomes.get("ok" if not probs else "problem", 0) + 1
                if probs and len(ctx.fail_inputs) < 3:
                    ctx.fail_input("reported location does not index the parsed string",
                                   {"grammar": gname, "s": s, "keep_tabs": keep}, "slice identities", probs[:3],
                                   theorem="C14 locations (oracle)")
    ctx.count_cases("oracle-parse-locs", n, outcomes=outcomes,
                    distinct_keys=[f"{g}|{s}" for g, _ in _grammars(pp) for s in inputs if "\t" in s or "\n" in s],
                    samples=[{"grammar": "seq", "s": inputs[5], "keep_tabs": False}])
    run_spans(ctx, pp)
    ctx.assumptions.append("C14: parser-reported locations are checked by the oracle on the real code and, through "
                           "the parse model, by C01/C13 correspondence; the Lean theorems cover util.col/lineno/line "
                           "and expandtabs for all strings")


def replay(data):
    if data.get("replay_kind") == "failing-input" and data["case"].get("order_case"):
        pp = common.import_pyparsing()
        s1 = data["case"]["string"]
        for loc in data["case"]["order"]:
            b = s1.rfind("\n", 0, loc) + 1
            if (pp.lineno(loc, s1), pp.col(loc, s1)) != (s1.count("\n", 0, loc) + 1, loc - b + 1):
                return True
        return False
    pp = common.import_pyparsing()
    case = data.get("case", {})
    if "loc" in case:
        return oracle_linecol(pp, case["s"], case["loc"]) is not None
    if case.get("span_case"):
        g = {x[0]: x for x in _span_grammars(pp)}[case["grammar"]]
        return bool(oracle_spans(pp, g[0], g[1], g[2], g[3], case["s"], case["ignore"], case["keep_tabs"]))
    if "grammar" in case:
        mk = dict(_grammars(pp))[case["grammar"]]
        return bool(oracle_parse_locs(pp, case["grammar"], mk, case["s"], case["keep_tabs"]))
    # broken obligation replay: re-run the quick check
    ctx = common.Ctx("C14", "quick", data.get("seed", 0))
    run(ctx)
    return bool(ctx.broken or ctx.fail_inputs)


# ---- spans re-derived from the tokens --------------------------------------------------------------------------------
# "the slice from a match's start to its end is the text it matched": for grammars whose tokens are exactly the texts of
# their Word/Literal leaves in order, the matched text is token_1 <ignorable> token_2 ... token_n, so the start is the
# first character of token_1 and the end is the position right after token_n — whatever whitespace / comments /
# suppressed delimiters follow.  Re-derived here by walking the parsed string; independent of every location pyparsing
# reports.
def _span_grammars(pp):
    W = lambda: pp.Word("ab")
    N = lambda: pp.Word("01")

    def fwd_alt():
        f = pp.Forward()
        f <<= (N() | W())
        return f

    def fwd_seq():
        f = pp.Forward()
        f <<= W() + pp.Opt(N())
        return f

    def rec_list():
        f = pp.Forward()
        f <<= (W() + pp.Opt(f)) | N()
        return f

    # (name, factory, suppressed delimiter characters, action-loc-in-scope); LOOSE_END: grammars whose last element may be an
    # Opt / ZeroOrMore that did not match (registered finding optional_tail_end_after_blanks)
    return [
        ("word", W, "", True),
        ("seq", lambda: W() + N(), "", True),
        ("seq3", lambda: W() + N() + W(), "", True),
        ("rep", lambda: pp.OneOrMore(W()), "", True),
        ("rep-alt", lambda: (W() | N())[1, ...], "", False),   # wrapper over an alternation: callPreparse copied as False (existing behaviour, not claimed)
        ("zrep", lambda: W() + pp.ZeroOrMore(N()), "", True),
        ("rep-group", lambda: pp.OneOrMore(pp.Group(W() + pp.Opt(N()))), "", True),
        ("opt-tail", lambda: W() + pp.Opt(N()), "", True),
        ("delim", lambda: pp.DelimitedList(W(), delim=","), ",", True),
        ("fwd-alt", fwd_alt, "", True),
        ("fwd-seq", fwd_seq, "", True),
        ("fwd-rec", rec_list, "", True),
        ("alt", lambda: N() | W() + N() | W(), "", False),
        ("or", lambda: (W() ^ (W() + N())), "", False),
        ("group-alt", lambda: pp.Group(N() | W()), "", False),
    ]


LOOSE_END = {"zrep", "rep-group", "opt-tail", "delim", "fwd-seq", "fwd-rec"}


def _flat(toks):
    out = []
    for t in toks:
        if isinstance(t, str):
            out.append(t)
        else:
            out.extend(_flat(t))
    return out


def _walk(parsed, st, toks, skip, comment):
    """positions (first, end) of the token texts laid out from st, skipping `skip` characters and comments between them"""
    pos, first = st, None
    for k, t in enumerate(toks):
        if k:
            while True:
                while pos < len(parsed) and parsed[pos] in skip:
                    pos += 1
                if comment == "#" and parsed.startswith("#", pos):
                    nl = parsed.find("\n", pos)
                    pos = len(parsed) if nl < 0 else nl
                    continue
                if comment == "c" and parsed.startswith("/*", pos) and parsed.find("*/", pos + 2) >= 0:
                    pos = parsed.find("*/", pos + 2) + 2
                    continue
                break
        if not parsed.startswith(t, pos):
            return None
        if first is None:
            first = pos
        pos += len(t)
    return first, pos


def _end_ok(parsed, w, en, skip, comment, loose):
    """the reported end `en` against the end `w[1]` of the last token"""
    if en == w[1]:
        return True
    if not loose or en < w[1]:
        return False
    # registered finding: anywhere inside the run of blanks / ignorables that follows the last token
    reach = _walk(parsed, w[1], ["", ""], skip, comment)
    return reach is not None and en <= reach[1]


def oracle_spans(pp, gname, mk, delims, act_scope, s, comment, keep_tabs):
    probs = []
    parsed = s if keep_tabs else s.expandtabs()
    skip = " \t\r\n" + delims
    loose = gname in LOOSE_END

    def prep(e):
        if comment == "#":
            e.ignore(pp.python_style_comment)
        elif comment == "c":
            e.ignore(pp.c_style_comment)
        if keep_tabs:
            e.parse_with_tabs()
        return e

    # scan_string spans
    try:
        for toks, st, en in prep(mk()).scan_string(s):
            w = _walk(parsed, st, _flat(toks.as_list()), skip, comment)
            if w is None:
                probs.append(f"scan_string start {st}: tokens {_flat(toks.as_list())!r} are not laid out from there")
            elif w[0] != st or not _end_ok(parsed, w, en, skip, comment, loose):
                probs.append(f"scan_string reports [{st}:{en}], the tokens {_flat(toks.as_list())!r} occupy [{w[0]}:{w[1]}]")
    except pp.ParseBaseException:
        pass
    # Located / original_text_for through scan_string
    try:
        for toks, st, en in prep(pp.Located(mk())).scan_string(s):
            inner = _flat(toks["value"].as_list()) if "value" in toks else []
            if not inner:
                continue
            w = _walk(parsed, toks["locn_start"], inner, skip, comment)
            if w is None or w[0] != toks["locn_start"] or not _end_ok(parsed, w, toks["locn_end"], skip, comment, loose):
                probs.append(f"Located reports [{toks['locn_start']}:{toks['locn_end']}], its tokens {inner!r} occupy {w}")
    except pp.ParseBaseException:
        pass
    try:
        plain = [(st, _flat(t.as_list())) for t, st, en in prep(mk()).scan_string(s)]
        texts = [t[0] for t, st, en in prep(pp.original_text_for(mk())).scan_string(s)]
        for (st, toks), txt in zip(plain, texts):
            w = _walk(parsed, st, toks, skip, comment)
            if w is not None and not (txt.startswith(parsed[w[0]:w[1]]) and
                                      _end_ok(parsed, w, w[0] + len(txt), skip, comment, loose) and txt == parsed[w[0]:w[0] + len(txt)]):
                probs.append(f"original_text_for gives {txt!r}, the matched text is {parsed[w[0]:w[1]]!r}")
    except pp.ParseBaseException:
        pass
    # the loc handed to a parse action attached to the expression itself = first character of its first token
    if act_scope:
        seen = []
        e = mk()
        e = e.copy() if not isinstance(e, pp.Forward) else e
        e.add_parse_action(lambda st_, l, t: seen.append((l, _flat(t.as_list()))))
        try:
            prep(pp.Suppress(pp.Literal("=")) + e).parse_string("= " + s if s[:1] not in ("",) else "=" + s)
        except pp.ParseBaseException:
            seen = []
        p2 = ("= " + s) if keep_tabs else ("= " + s).expandtabs()
        for l, toks in seen[-1:]:
            if toks and not p2.startswith(toks[0], l):
                probs.append(f"parse action loc {l} is not the start of its first token {toks[0]!r} in {p2!r}")
    return probs


def _span_inputs(ctx):
    rng = ctx.subrng("span-inputs")
    pieces = ["ab", "a", "b", "01", "1", " ", " ", "  ", "\t", "\n", ",", "#x\n", "# 01", "/* c */", "/*ab*/", "x", ";"]
    out = ["ab cd #x\n 12", "ab ab #x\n 01", "ab 01 /* c */ ;", "ab /* c */", "ab,ab , ab #", "  ab\t01  ", "ab #x", "\n\n  01"]
    for _ in range(ctx.budget(120, 900)):
        out.append("".join(rng.choice(pieces) for _ in range(rng.randint(1, 8))))
    return out


def run_spans(ctx, pp):
    # registered finding: replay the witness; it must still fail in the recorded way to be reported as known
    try:
        got = pp.original_text_for(pp.Word("ab") + pp.Opt(pp.Word("01"))).parse_string("ab   x").as_list()
    except pp.ParseBaseException as ex:
        got = repr(ex)
    if got == ["ab   "]:
        ctx.fail_input("end of a match lies after the blanks that follow its last token",
                       {"span_case": True, "grammar": "opt-tail", "s": "ab   x", "ignore": "", "keep_tabs": False, "witness": True},
                       ["ab"], got, theorem="C14 locations (oracle: spans re-derived from the tokens)",
                       signature="optional_tail_end_after_blanks")
    inputs = _span_inputs(ctx)
    n, outcomes, shown = 0, {}, 0
    for gname, mk, delims, act_scope in _span_grammars(pp):
        for s in inputs:
            for comment in ("", "#", "c"):
                if comment == "" and ("#" in s or "/*" in s) and False:
                    continue
                for keep in (False, True):
                    n += 1
                    try:
                        probs = common.with_alarm(5, oracle_spans, pp, gname, mk, delims, act_scope, s, comment, keep)
                    except common.CaseTimeout:
                        probs = ["hang"]
                    k = "ok" if not probs else "problem"
                    outcomes[k] = outcomes.get(k, 0) + 1
                    if probs and shown < 3:
                        shown += 1
                        ctx.fail_input("reported span is not the text the tokens occupy",
                                       {"span_case": True, "grammar": gname, "s": s, "ignore": comment, "keep_tabs": keep},
                                       "start = first character of the first token, end = right after the last token",
                                       probs[:3], theorem="C14 locations (oracle: spans re-derived from the tokens)")
    ctx.count_cases("oracle-spans", n, outcomes=outcomes,
                    distinct_keys=[f"{g}|{s}" for g, *_ in _span_grammars(pp) for s in inputs],
                    samples=[{"grammar": "rep", "s": inputs[0], "ignore": "#", "keep_tabs": False}])
