"""C19 — global settings are scoped as documented and fully restorable.

proof:           lean/PPProofs/Props/C19.lean over the model lean/PPModel/Mod/Settings.lean (every public setter
                 with its guards, reset_pyparsing_context.save/restore statement by statement, a stack machine
                 for nested contexts), consuming facts regenerated from the live package
                 (lean/PPProofs/Props/Gen/Settings.lean: __diag__/__compat__ names, defaults, built-ins)
correspondence:  random entry configuration x random command sequences (setters, force switches, nested
                 contexts, a malformed stream) executed on the real process-global state, full raw snapshot
                 after every command, diffed against the Lean machine run on the same commands from the same
                 entry snapshot (driver command `settings-run`); exhaustive small scope over the mode setters
search (oracle): the theorem statements executed on the real snapshots (every exit restores the entry
                 observables and does not raise; refusal / force / idempotence of the mode setters; attribute
                 scope of set_default_whitespace_chars; leave_whitespace / ignore_whitespace change one flag; a
                 copy's whiteChars do not depend on skipWhitespace) + parse behaviour of pre-existing / new / copied /
                 leave_whitespace()d-then-copied / built-in expressions around set_default_whitespace_chars and
                 context exits.  Failing cases are shrunk.
The real settings are process-global: every case starts from and ends with a hard reset to the pristine
import-time values, and batches run in forked workers.
"""
from __future__ import annotations

import json
import warnings
from pathlib import Path

from .. import common
from ..sexp import Sym, dumps, loads

META = dict(
    text="Lean theorems (PPProofs/Props/C19.lean) over a statement-by-statement model of "
         "reset_pyparsing_context.save/restore and of every public setter with its guards. FULL STRENGTH: "
         "restore_total_and_exact / live_restore_total_and_exact (for every entry state reachable from import and every "
         "well-nested finite command sequence incl. force=True switches, bad capacities, unknown flag names, nested "
         "contexts, re-entered context objects, exit through ctx.copy() and repeated restore(): no __enter__/__exit__ raises, every listed setting and the recursion_memos object are back to their "
         "entry values, every built-in's whiteChars is back, enclosing contexts untouched), restore_exact (one context, arbitrary state inside), new_expr_after_exit, "
         "packrat_lr_exclusive + packrat_lr_never_both + parse_selector_follows_packrat (each setter refuses while the "
         "other mode is on unless force=True; never both on, and _parse is the caching function exactly while packrat is "
         "on, after any history), enablePackrat_idempotent/_twice, users_untouched (no setting change and no context "
         "entry/exit touches an existing user expression unless the user calls "
         "set_whitespace_chars / leave_whitespace / ignore_whitespace / <<= on it), "
         "leave_ignore_only_flag (leave_whitespace()/ignore_whitespace() change only that expression's skipWhitespace), "
         "copy_ws_whatever_skip (a copy gets set(current default) iff the source has copyDefaultWhiteChars - skipWhitespace "
         "is not consulted; copying commutes with leave/ignore_whitespace), preParseWs_spec (the whitespace part of "
         "preParse of a plain element skips nothing unless skipWhitespace and else exactly the longest prefix of "
         "whiteChars characters), leave_copy_ignore_follows_default (leave_whitespace -> set_default_whitespace_chars(c) "
         "-> copy -> ignore_whitespace: the copy skips exactly the characters of c, for every state / expression / c), "
         "copy_after_exit_follows_entry_default (after any well-nested context body a copy of any default-following "
         "expression, also one built or leave_whitespace()d inside, gets the entry default), alt_ws_scope; "
         "route_irrelevant / run_route_irrelevant (the class, instance or synonym through which a static setter is called "
         "does not enter: same state, same exception, for single calls and whole histories), shadows_never_created + "
         "live_one_cell (no command gives a subclass an own copy of a setting attribute, none has one after import - "
         "generated fact - so after any history every class of the hierarchy reads the base class's cell), "
         "restore_every_class_view (leaving a context restores the settings as read through every class). "
         "PARTIAL: default_ws_scope_partial and forward_ws_scope_partial speak about "
         "the whiteChars/copyDefaultWhiteChars/skipWhitespace attributes (new expressions incl. MatchFirst/Or and Forward(), copies, "
         "And/Group/Opt/... composites over existing expressions, `fwd <<= e` taking over e's set AND flag so that later "
         "copies of the Forward follow the default, copies of unassigned Forwards, built-ins, existing user "
         "expressions); that these attributes decide what an expression skips is checked on the real parser by the "
         "oracle for composites (every parsable user expression at the end of every history - incl. directed histories "
         "leave_whitespace -> default change / context entry / exit -> copy -> ignore_whitespace - and the ws-behaviour "
         "battery); for a plain element it is preParseWs_spec over the transcribed preParse. live_builtins_restored_though_unsynced: the pristine built-in line_start (own "
         "set differs from the default) is changed inside and restored on exit (finding fixed by /repo e056afa). "
         "Cache/memo contents are not settings and are not modelled.",
    note="Trusted: Lean kernel; axioms propext/Classical.choice/Quot.sound; the Settings transcription (tied to /repo by "
         "a differential run on every check: full raw state incl. object identity of the cache/memo tables after every "
         "command of random and exhaustive histories) and the class data regenerated from the live package into "
         "PPProofs/Props/Gen/Settings.lean; the Python snapshot function (class attributes, .size, ._capacity; "
         "class-local copies of a setting are detected by `attr in cls.__dict__` over all loaded subclasses). "
         "Settings are assumed to be changed only through the public setters (direct assignment only for "
         "verbose_stacktrace and __compat__ flags). Parse-time whitespace skipping of composites is oracle-checked only "
         "(plain elements: transcribed preParse loop).",
    technique="Lean 4 proof over a transcribed settings/context machine + differential correspondence on histories",
    design="§5 C19",
)

NS = "PP.Settings."
THEOREMS = [NS + t for t in (
    "restore_exact",
    "restore_total_and_exact",
    "live_restore_total_and_exact",
    "live_builtins_restored_though_unsynced",
    "packrat_lr_exclusive",
    "packrat_lr_never_both",
    "live_packrat_lr_never_both",
    "parse_selector_follows_packrat",
    "enablePackrat_idempotent",
    "enablePackrat_twice",
    "users_untouched",
    "new_expr_after_exit",
    "default_ws_scope_partial",
    "forward_ws_scope_partial",
    "leave_ignore_only_flag",
    "copy_ws_whatever_skip",
    "preParseWs_spec",
    "leave_copy_ignore_follows_default",
    "copy_after_exit_follows_entry_default",
    "alt_ws_scope",
    "route_irrelevant",
    "run_route_irrelevant",
    "shadows_never_created",
    "live_one_cell",
    "restore_every_class_view",
)]

# the class attributes that hold the settings; owner = the class the setters assign to by name
PE_SETTING_ATTRS = ["DEFAULT_WHITE_CHARS", "verbose_stacktrace", "_literalStringClass", "_packratEnabled",
                    "_left_recursion_enabled", "_parse", "packrat_cache", "recursion_memos"]
KW_SETTING_ATTRS = ["DEFAULT_KEYWORD_CHARS"]

GEN_REL = "PPProofs/Props/Gen/Settings.lean"
LIT_CLASSES = ["Literal", "Suppress", "CaselessLiteral", "Keyword", "CaselessKeyword"]
CORPUS = common.VERIF / "corpus" / "C19"


# =================================================================================================
# the real side: world, snapshot, executing commands, hard reset
# =================================================================================================
class World:
    """handles to the live package + identity numbering of cache/memo objects + user expressions"""

    def __init__(self, pp):
        import pyparsing.core as core

        self.pp = pp
        self.core = core
        self.PE = pp.ParserElement
        seen, bl = set(), []
        for e in core._builtin_exprs:
            if id(e) not in seen:
                seen.add(id(e))
                bl.append(e)
        self.builtins = bl
        self.lit_classes = [getattr(pp, n) for n in LIT_CLASSES]

        # user subclasses (a setter may be called through them, and they read the settings like any other class)
        class HarnessKeyword(pp.Keyword):
            pass

        class HarnessWord(pp.Word):
            pass

        def strict_subclasses(c):
            out = []
            for sub in c.__subclasses__():
                out.append(sub)
                out.extend(strict_subclasses(sub))
            return out

        def uniq(cs):
            seen, out = set(), []
            for c in sorted(cs, key=lambda c: (c.__module__, c.__qualname__)):
                if id(c) not in seen:
                    seen.add(id(c))
                    out.append(c)
            return out

        # every (class, attribute) where a class-local entry would hide the base class's setting
        self.watch = [(c, c.__qualname__.split(".")[-1], a) for c in uniq(strict_subclasses(pp.ParserElement))
                      for a in PE_SETTING_ATTRS]
        self.watch += [(c, c.__qualname__.split(".")[-1], a) for c in uniq(strict_subclasses(pp.Keyword))
                       for a in KW_SETTING_ATTRS]
        self.pristine_shadows = [(n, a) for c, n, a in self.watch if a in c.__dict__]
        # routes: route 0 is the base class; classes of the hierarchy, instances, user subclasses
        self.pe_routes = [pp.ParserElement, pp.Word, pp.Literal, pp.Keyword, pp.CaselessKeyword, pp.Forward, pp.And,
                          pp.Regex, pp.Token, pp.MatchFirst, pp.Word("x"), pp.Empty(), pp.CaselessKeyword("x"),
                          pp.Group(pp.Word("x")), HarnessWord, HarnessWord("x"), HarnessKeyword]
        self.kw_routes = [pp.Keyword, pp.CaselessKeyword, pp.Keyword("x"), pp.CaselessKeyword("x"), HarnessKeyword,
                          HarnessKeyword("x")]
        self.kw_classes = [pp.Keyword, pp.CaselessKeyword, HarnessKeyword]
        self.diag = core.__diag__
        self.compat = core.__compat__
        PE = self.PE
        self.pristine = dict(
            ws=PE.DEFAULT_WHITE_CHARS, kw=pp.Keyword.DEFAULT_KEYWORD_CHARS, lit=PE._literalStringClass,
            verbose=PE.verbose_stacktrace, packrat=PE._packratEnabled, cache=PE.packrat_cache,
            parse=PE.__dict__["_parse"], lr=PE._left_recursion_enabled, memo=PE.recursion_memos,
            diag={n: getattr(self.diag, n) for n in self.diag._all_names},
            compat={n: getattr(self.compat, n) for n in self.compat._all_names},
            builtins=[(set(e.whiteChars), e.copyDefaultWhiteChars, e.skipWhitespace) for e in bl],
            builtins_fwd_empty=[_fwd_empty(pp, e) for e in bl],
        )
        self.reset_world()

    def reset_world(self):
        self.objs = [self.pristine["cache"], self.pristine["memo"]]
        self.users = []

    def hard_reset(self):
        """put every process-global back to its import-time value (not through the code under test)"""
        PE, p = self.PE, self.pristine
        PE.DEFAULT_WHITE_CHARS = p["ws"]
        self.pp.Keyword.DEFAULT_KEYWORD_CHARS = p["kw"]
        PE._literalStringClass = p["lit"]
        PE.verbose_stacktrace = p["verbose"]
        PE._packratEnabled = p["packrat"]
        PE.packrat_cache = p["cache"]
        PE._parse = p["parse"]
        PE._left_recursion_enabled = p["lr"]
        PE.recursion_memos = p["memo"]
        try:
            p["memo"].clear()
            p["cache"].clear()
        except Exception:
            pass
        for n, v in p["diag"].items():
            setattr(self.diag, n, v)
        for n, v in p["compat"].items():
            setattr(self.compat, n, v)
        for e, (w, c, s) in zip(self.builtins, p["builtins"]):
            e.whiteChars = set(w)
            e.copyDefaultWhiteChars = c
            e.skipWhitespace = s
        for c, n, a in self.watch:      # class-local copies of a setting (created only by a defective setter)
            if a in c.__dict__ and (n, a) not in self.pristine_shadows:
                delattr(c, a)
        self.reset_world()

    def oid(self, o):
        for i, x in enumerate(self.objs):
            if x is o:
                return i
        self.objs.append(o)
        return len(self.objs) - 1


def _fwd_empty(pp, e):
    return isinstance(e, pp.Forward) and e.expr is None


def _b(v):
    return v if isinstance(v, bool) else Sym(f"non-bool:{type(v).__name__}")


def _s(v):
    return v if isinstance(v, str) else f"<non-str:{type(v).__name__}>"


def _wsset(e):
    try:
        return "".join(sorted(e.whiteChars))
    except Exception:
        return "<bad-whiteChars>"


def snapshot(W: World):
    """abstraction function: real process state -> model `State` (same S-expression shape as the driver)"""
    PE, pp = W.PE, W.pp
    cache = PE.packrat_cache
    if type(cache) is PE.NullCache:
        ck = Sym("null")
    else:
        size = getattr(cache, "size", Sym("no-size"))
        ck = Sym("unbounded") if size is None else [Sym("fifo"), size]
    memo = PE.recursion_memos
    if type(memo) is dict:
        mk = Sym("dict")
    elif hasattr(memo, "_capacity"):
        mk = [Sym("lru"), memo._capacity]
    else:
        mk = Sym("unbounded")
    parse = PE.__dict__.get("_parse")
    if parse is PE.__dict__.get("_parseNoCache"):
        ps = Sym("nocache")
    elif parse is PE.__dict__.get("_parseCache"):
        ps = Sym("cache")
    else:
        ps = Sym("other")
    lit = PE._literalStringClass
    li = next((i for i, c in enumerate(W.lit_classes) if c is lit), 99)
    cid = W.oid(cache)
    mid = W.oid(memo)
    return [
        _s(PE.DEFAULT_WHITE_CHARS), _s(pp.Keyword.DEFAULT_KEYWORD_CHARS), li, _b(PE.verbose_stacktrace),
        _b(PE._packratEnabled), [cid, ck], ps, _b(PE._left_recursion_enabled), [mid, mk],
        [[n, _b(getattr(W.diag, n, None))] for n in W.diag._all_names],
        [[n, _b(getattr(W.compat, n, None))] for n in W.compat._all_names],
        [[_wsset(e), _b(e.copyDefaultWhiteChars), _fwd_empty(pp, e), _b(e.skipWhitespace)] for e in W.builtins],
        [[_wsset(e), _b(e.copyDefaultWhiteChars), _fwd_empty(pp, e), _b(e.skipWhitespace)] for e in W.users],
        len(W.objs),
        sorted([n, a] for c, n, a in W.watch if a in c.__dict__),
    ]


# indices into a snapshot
I_WS, I_KW, I_LIT, I_VERB, I_PK, I_CACHE, I_PSEL, I_LR, I_MEMO, I_DIAG, I_COMPAT, I_BUILTINS, I_USERS, I_GEN, I_SHADOWS = range(15)


def obs(snap):
    """the settings the property speaks about (PP.Settings.obs)"""
    return {
        "default_whitespace": snap[I_WS],
        "default_keyword_chars": snap[I_KW],
        "literal_string_class": snap[I_LIT],
        "verbose_stacktrace": snap[I_VERB],
        "packrat": snap[I_CACHE][1] if snap[I_PK] is True else (None if snap[I_PK] is False else snap[I_PK]),
        "_parse": snap[I_PSEL],
        "left_recursion": snap[I_MEMO][1] if snap[I_LR] is True else (None if snap[I_LR] is False else snap[I_LR]),
        "__diag__": snap[I_DIAG],
        "__compat__": snap[I_COMPAT],
    }


def _new_user_expr(W, variant):
    """a fresh expression matching "ab": four leaf kinds, or MatchFirst / Or over an existing expression
    (these take no whitespace over from their alternatives)"""
    pp = W.pp
    k = variant % 6
    if k >= 4 and W.users:
        e = W.users[variant % len(W.users)]
        return pp.MatchFirst([e, pp.Literal("zz")]) if k == 4 else pp.Or([e, pp.Literal("zz")])
    k %= 4
    if k == 0:
        return pp.Word("ab")
    if k == 1:
        return pp.Literal("ab")
    if k == 2:
        return pp.Regex("ab+")
    return pp.CaselessLiteral("ab")


def _route_names(routes):
    return "[" + ", ".join(r.__name__ if isinstance(r, type) else f"<{type(r).__name__} instance>" for r in routes) + "]"


def resolve_op(W: World, op, variant):
    """the command as the model sees it: `["new"]` builds a leaf or, for some variants, a MatchFirst / Or over
    an existing user expression (`newalt i`: these take the alternative's skipWhitespace over)"""
    if not isinstance(op, str) and op[0] == "new" and variant % 6 >= 4 and W.users:
        return ["newalt", variant % len(W.users)]
    return op


def apply_op(W: World, op, variant=0):
    """execute one setter through the public API; returns 'ok' or the exception class name"""
    pp, PE = W.pp, W.PE
    k = op[0]
    alt = variant % 2 == 1
    n_args = {"setws": 2, "setkw": 2, "lit": 2, "packrat": 3, "lr": 3, "disable": 1, "reset": 1}.get(k)
    route = op[n_args] if n_args is not None and len(op) > n_args else 0
    via = (W.kw_routes if k == "setkw" else W.pe_routes)
    via = via[route % len(via)]     # the class / instance the static setter is looked up on
    try:
        with warnings.catch_warnings():
            warnings.simplefilter("ignore")
            if k == "setws":
                (via.setDefaultWhitespaceChars if alt else via.set_default_whitespace_chars)(op[1])
            elif k == "setkw":
                (via.setDefaultKeywordChars if alt else via.set_default_keyword_chars)(op[1])
            elif k == "lit":
                (via.inlineLiteralsUsing if alt else via.inline_literals_using)(W.lit_classes[op[1]])
            elif k == "verbose":
                PE.verbose_stacktrace = op[1]
            elif k == "packrat":
                f = via.enablePackrat if alt else via.enable_packrat
                f(op[1], force=True) if op[2] else f(op[1])
            elif k == "lr":
                f = via.enableLeftRecursion if alt else via.enable_left_recursion
                f(op[1], force=True) if op[2] else f(op[1])
            elif k == "disable":
                (via.disableMemoization if alt else via.disable_memoization)()
            elif k == "reset":
                (via.resetCache if alt else via.reset_cache)()
            elif k == "diag":
                if alt and op[1] in pp.Diagnostics.__members__:
                    (pp.enable_diag if op[2] else pp.disable_diag)(pp.Diagnostics[op[1]])
                else:
                    (W.diag.enable if op[2] else W.diag.disable)(op[1])
            elif k == "allwarn":
                (pp.enable_all_warnings if alt else W.diag.enable_all_warnings)()
            elif k == "compat":
                (W.compat.enable if op[2] else W.compat.disable)(op[1])
            elif k == "compatassign":
                setattr(W.compat, op[1], op[2])
            elif k == "new":
                W.users.append(_new_user_expr(W, variant))
            elif k == "copy":
                if op[1] < len(W.users):
                    e = W.users[op[1]]
                    v = variant % 3
                    W.users.append(e.copy() if v == 0 else e() if v == 1 else e("name"))
            elif k == "wrap":
                if op[1] < len(W.users):
                    e = W.users[op[1]]
                    v = variant % 6
                    W.users.append(pp.Group(e) if v == 0 else pp.And([e, pp.Empty()]) if v == 1 else pp.Suppress(e)
                                   if v == 2 else pp.OneOrMore(e) if v == 3 else pp.Opt(e) if v == 4
                                   else pp.ZeroOrMore(e))
            elif k == "newfwd":
                W.users.append(pp.Forward())
            elif k == "fwdassign":
                i, j = op[1], op[2]
                if i < len(W.users) and j < len(W.users) and i != j and isinstance(W.users[i], pp.Forward):
                    if alt:
                        W.users[i] << W.users[j]
                    else:
                        W.users[i] <<= W.users[j]
            elif k in ("leavews", "ignorews"):
                if op[1] < len(W.users):
                    e = W.users[op[1]]
                    names = ("leave_whitespace", "leaveWhitespace") if k == "leavews" else \
                        ("ignore_whitespace", "ignoreWhitespace")
                    f = getattr(e, names[variant % 2])
                    # `recursive` only decides whether *children* are replaced by (re-configured) copies
                    r = f() if variant % 3 else f(recursive=False)
                    if r is not e:
                        raise common.HarnessError(f"{names[0]} did not return self")
            elif k == "exprws":
                if op[1] < len(W.users):
                    e = W.users[op[1]]
                    if alt:
                        e.set_whitespace_chars(op[2], copy_defaults=op[3])
                    else:
                        e.setWhitespaceChars(op[2], copy_defaults=op[3])
            else:
                raise common.HarnessError(f"unknown op {op!r}")
    except common.HarnessError:
        raise
    except Exception as e:  # noqa: BLE001
        return type(e).__name__
    return "ok"


def run_real(W: World, case):
    """execute a case on the real process state; returns (entry snapshot, [(snapshot, err, depth, ctxErr)])"""
    W.hard_reset()
    try:
        for i, op in enumerate(case["setup"]):
            apply_op(W, op, i + len(op))
        entry = snapshot(W)
        stack, ctx_err, out, probes, last_ctx = [], False, [], [], None
        resolved = []
        for i, c in enumerate(case["cmds"]):
            variant = i + len(c)
            resolved.append(resolve_op(W, c, variant))
            if c in ("enter", "reenter"):
                if c == "reenter" and last_ctx is not None:
                    ctx, last_ctx = last_ctx, None      # the very same object is entered again
                else:
                    if c == "reenter":
                        last_ctx = None
                    ctx = W.pp.testing.reset_pyparsing_context()
                try:
                    ctx.save() if variant % 2 else ctx.__enter__()
                    stack.append(ctx)
                    err = "ok"
                except Exception as e:  # noqa: BLE001
                    err, ctx_err = type(e).__name__, True
            elif c in ("exit", "exitcopy"):
                if stack:
                    ctx = stack.pop()
                    last_ctx = ctx
                    try:
                        v = variant % 3
                        if c == "exitcopy":
                            cp = ctx.copy()
                            cp.restore() if v else cp.__exit__(None, None, None)
                        elif v == 0:
                            ctx.__exit__(None, None, None)
                        elif v == 1:
                            ctx.restore()
                        else:  # the block is left by an exception
                            exc = KeyError("raised inside the with block")
                            if ctx.__exit__(KeyError, exc, None):
                                raise common.HarnessError("__exit__ swallowed the exception")
                        err = "ok"
                    except common.HarnessError:
                        raise
                    except Exception as e:  # noqa: BLE001
                        err, ctx_err = type(e).__name__, True
                else:
                    err = "ok"
            elif c == "restorelast":
                err = "ok"
                if last_ctx is not None:
                    try:
                        last_ctx.restore()
                    except Exception as e:  # noqa: BLE001
                        err, ctx_err = type(e).__name__, True
            else:
                err = apply_op(W, c, variant)
            out.append([snapshot(W), Sym(err), len(stack), ctx_err])
            probes.append(_probe(W))
        if probes:
            probes[-1].append(_behaviour(W))
        return entry, out, probes, resolved
    finally:
        W.hard_reset()


def _probe(W):
    """what freshly built expressions pick up from the settings right now (oracle only)"""
    pp = W.pp
    try:
        with warnings.catch_warnings():
            warnings.simplefilter("ignore")
            lit = type((pp.Empty() + "qq").exprs[1]).__name__
            kw = "".join(sorted(pp.Keyword("kw").identChars))
            ws = "".join(sorted(pp.Word("ab").whiteChars))
            # the same settings as picked up by other classes of the hierarchy
            extra = {"kw": {c.__name__: "".join(sorted(c("kw").identChars)) for c in W.kw_classes},
                     "ws": {c.__name__: "".join(sorted(c("ab").whiteChars)) for c in (pp.Literal, pp.CaselessKeyword)}}
        return [lit, kw, ws, [type(e).__name__ for e in W.users], extra]
    except Exception as e:  # noqa: BLE001
        return ["probe-raised", type(e).__name__, "", [type(e).__name__ for e in W.users], {}]


def _behaviour(W):
    """for every user expression that can parse "ab": the probe characters it really skips before its match, and
    the ones its whitespace attributes say it skips (its own whiteChars if skipWhitespace and callPreparse;
    MatchFirst/Or and repetitions also let their first alternative / body skip). None for expressions that cannot parse."""
    pp = W.pp
    multi = getattr(__import__("pyparsing.core").core, "_MultipleMatch", ())

    def nullable(e, seen):
        if id(e) in seen:
            return False
        seen = seen | {id(e)}
        if isinstance(e, (pp.Opt, pp.ZeroOrMore, pp.Empty)):
            return True
        if isinstance(e, pp.Forward):
            return e.expr is not None and nullable(e.expr, seen)
        if isinstance(e, pp.ParseElementEnhance):
            return nullable(e.expr, seen)
        if isinstance(e, pp.And):
            return all(nullable(x, seen) for x in e.exprs)
        if isinstance(e, pp.ParseExpression):
            return any(nullable(x, seen) for x in e.exprs)
        return False

    def parsable(e, seen):
        if id(e) in seen:
            return False
        seen = seen | {id(e)}
        if isinstance(e, pp.Forward):
            return e.expr is not None and parsable(e.expr, seen)
        if multi and isinstance(e, multi) and (e.expr.mayReturnEmpty or nullable(e.expr, frozenset())):
            return False  # a repetition of a nullable body never terminates
        if isinstance(e, pp.ParseElementEnhance):
            return parsable(e.expr, seen)
        if isinstance(e, pp.ParseExpression):
            return bool(e.exprs) and parsable(e.exprs[0], seen)
        return True

    def own(e):
        # _parseNoCache: preParse only `if callPreParse and self.callPreparse`; it skips only if skipWhitespace
        return set(e.whiteChars) if e.skipWhitespace and e.callPreparse else set()

    def inner(e, depth):
        """what e.parseImpl lets its first sub-expression skip"""
        if depth > 60:
            return set()
        if isinstance(e, pp.Or) and e.exprs:     # Or.parseImpl preParses itself when all alternatives callPreparse
            mine = set(e.whiteChars) if e.skipWhitespace and all(x.callPreparse for x in e.exprs) else set()
            return mine | eff(e.exprs[0], depth + 1)
        if isinstance(e, pp.MatchFirst) and e.exprs:                 # alternatives are parsed with preParse
            return eff(e.exprs[0], depth + 1)
        if multi and isinstance(e, multi):                           # so is the body of a repetition
            return eff(e.expr, depth + 1)
        if isinstance(e, pp.And) and e.exprs:                        # first element: callPreParse=False
            return inner(e.exprs[0], depth + 1)
        if isinstance(e, pp.ParseElementEnhance) and e.expr is not None:   # wrappers, Forward: callPreParse=False
            return inner(e.expr, depth + 1)
        return set()

    def eff(e, depth=0):
        return own(e) | inner(e, depth)

    out = []
    with warnings.catch_warnings():
        warnings.simplefilter("ignore")
        for e in W.users:
            if not parsable(e, frozenset()):
                out.append(None)
                continue
            e.streamline()  # what parse_string does first; it may flatten nested Or/MatchFirst/And
            want = sorted(eff(e) & set(PROBE_CHARS))
            got = []
            for ch in PROBE_CHARS:
                try:
                    e.parse_string(ch + ch + "ab", parse_all=True)
                    got.append(ch)
                except pp.ParseBaseException:
                    pass
                except RecursionError:
                    got = None
                    break
            out.append(None if got is None else [sorted(got), want, type(e).__name__])
    return out


_W = None


def world():
    global _W
    if _W is None:
        _W = World(common.import_pyparsing())
    return _W


def cfg_sexp(W):
    d, c = W.diag, W.compat
    return [list(d._all_names), list(d._fixed_names), list(getattr(d, "_warning_names", [])),
            list(c._all_names), list(c._fixed_names)]


def cmd_sexp(c):
    if isinstance(c, str):
        return Sym(c)
    return [Sym(c[0])] + [Sym("None") if x is None else x for x in c[1:]]


def _worker(case):
    """runs in a forked child (or inline): real execution + oracle; returns json-able dict"""
    warnings.simplefilter("ignore")  # e.g. Forward.__del__ diagnostics, issued outside any catch_warnings block
    W = world()
    try:
        entry, tr, probes, resolved = common.with_alarm(20, run_real, W, case)
    except common.CaseTimeout:
        W.hard_reset()
        return {"hang": True}
    line = dumps([Sym("settings-run")])[1:-1] + " " + dumps(cfg_sexp(W)) + " " + dumps(entry) + " " + dumps(
        [cmd_sexp(c) for c in resolved])
    o0 = obs(entry)
    return {"line": line, "impl": dumps(tr), "problems": oracle(W, case, entry, tr, probes, resolved),
            "depth": max([t[2] for t in tr] + [0]), "errs": sorted({str(t[1]) for t in tr}),
            "nt": any(obs(t[0]) != o0 for t in tr)}


# =================================================================================================
# oracle: the theorem statements, on real snapshots
# =================================================================================================
def oracle(W, case, entry, tr, probes=None, resolved=None):
    """returns list of problems: dict(atom=<class of failure>, at=<command index>, expected=..., actual=..., theorem=...)"""
    probs = []

    def add(atom, at, expected, actual, theorem):
        probs.append({"atom": atom, "at": at, "expected": expected, "actual": actual, "theorem": theorem})

    prev = entry
    stack = []
    last_ent = None
    for i, (c, (snap, err, depth, ctx_err)) in enumerate(zip(resolved or case["cmds"], tr)):
        err = str(err)
        o_prev, o_now = obs(prev), obs(snap)
        # -- never both modes (packrat_lr_never_both)
        if snap[I_PK] is True and snap[I_LR] is True:
            add("both-modes-enabled", i, "at most one of packrat / left recursion enabled", "both enabled",
                "packrat_lr_never_both")
        if (snap[I_PSEL] == "cache") != (snap[I_PK] is True):
            add("parse-function-inconsistent-with-packrat-flag", i, "_parse is _parseCache exactly while packrat is enabled",
                {"_parse": snap[I_PSEL], "_packratEnabled": snap[I_PK], "left_recursion": snap[I_LR]},
                "parse_selector_follows_packrat")
        # -- a setting is one cell of the base class: no command gives a subclass its own copy
        if snap[I_SHADOWS] != prev[I_SHADOWS]:
            new = [x for x in snap[I_SHADOWS] if x not in prev[I_SHADOWS]] or snap[I_SHADOWS]
            add(f"class-local-copy-of-setting:{new[0][0]}.{new[0][1]}" if new else "class-local-copy-of-setting", i,
                {"classes with an own entry for a setting attribute": prev[I_SHADOWS]},
                {"classes with an own entry for a setting attribute": snap[I_SHADOWS]},
                "shadows_never_created")
        if probes is not None:
            lit, kw, ws, kinds = probes[i][:4]
            extra = probes[i][4]
            if isinstance(snap[I_KW], str):
                for cn, got in extra.get("kw", {}).items():
                    # a caseless keyword upper-cases its identifier characters (Keyword.__init__)
                    want = "".join(sorted(set(snap[I_KW].upper() if cn == "CaselessKeyword" else snap[I_KW])))
                    if got != want:
                        add(f"default-keyword-chars-not-used:{cn}", i,
                            {f"identChars of a new {cn}": want},
                            {f"identChars of a new {cn}": got}, "live_one_cell (settings take effect, oracle only)")
            if isinstance(snap[I_WS], str):
                for cn, got in extra.get("ws", {}).items():
                    if got != "".join(sorted(set(snap[I_WS]))):
                        add(f"default-whitespace-not-used-by-new-expression:{cn}", i,
                            "".join(sorted(set(snap[I_WS]))), got, "live_one_cell (settings take effect, oracle only)")
            if len(probes[i]) > 5:
                for j, bh in enumerate(probes[i][5]):
                    if bh is not None and bh[0] != bh[1]:
                        add("whitespace-skipping-differs-from-whiteChars", i,
                            {"expression": j, "class": bh[2], "skips": bh[1]}, {"expression": j, "skips": bh[0]},
                            "default_ws_scope_partial (behaviour, oracle only)")
                        break
            if snap[I_LIT] < len(LIT_CLASSES) and lit != LIT_CLASSES[snap[I_LIT]]:
                add("inline-literal-class-not-used", i, LIT_CLASSES[snap[I_LIT]], lit, "settings take effect (oracle only)")
            if isinstance(snap[I_KW], str) and kw != "".join(sorted(set(snap[I_KW]))):
                add("default-keyword-chars-not-used", i, "".join(sorted(set(snap[I_KW]))), kw, "settings take effect (oracle only)")
            if isinstance(snap[I_WS], str) and ws != "".join(sorted(set(snap[I_WS]))):
                add("default-whitespace-not-used-by-new-expression", i, "".join(sorted(set(snap[I_WS]))), ws,
                    "default_ws_scope_partial")
        if c in ("enter", "reenter"):
            if c == "reenter":
                last_ent = None
            if err != "ok":
                add(f"enter-raises:{err}", i, "no exception from __enter__", err, "restore_total_and_exact")
            else:
                stack.append(prev)
            if snap != prev:
                add("enter-changes-state", i, "save() changes nothing", "state changed", "restore_total_and_exact")
        elif c == "restorelast":
            if last_ent is not None:
                if err != "ok":
                    add(f"restore-again-raises:{err}", i, "no exception from restore()", err, "restore_exact")
                else:
                    o_ent = obs(last_ent)
                    for k in o_ent:
                        if o_ent[k] != o_now[k]:
                            add(f"restore-again-not-exact:{k}", i, {k: o_ent[k]}, {k: o_now[k]}, "restore_exact")
                    if last_ent[I_BUILTINS] != snap[I_BUILTINS]:
                        add("restore-again-not-exact:builtin-whiteChars", i, "built-ins as when the context was entered",
                            "differ", "restore_exact")
            elif snap != prev:
                add("restore-again-without-context-changes-state", i, "no change", "state changed", "restore_exact")
        elif c in ("exit", "exitcopy"):
            if stack:
                ent = stack.pop()
                last_ent = ent
                if err != "ok":
                    add(f"exit-raises:{err}", i, "no exception from __exit__", err, "restore_total_and_exact")
                else:
                    o_ent = obs(ent)
                    for k in o_ent:
                        if o_ent[k] != o_now[k]:
                            add(f"not-restored:{k}", i, {k: o_ent[k]}, {k: o_now[k]}, "restore_total_and_exact")
                    if ent[I_SHADOWS] != snap[I_SHADOWS]:
                        d = [x for x in snap[I_SHADOWS] if x not in ent[I_SHADOWS]] or \
                            [x for x in ent[I_SHADOWS] if x not in snap[I_SHADOWS]]
                        add(f"not-restored:class-view:{d[0][0]}.{d[0][1]}", i,
                            {"classes reading their own copy instead of the base class's setting": ent[I_SHADOWS]},
                            {"classes reading their own copy instead of the base class's setting": snap[I_SHADOWS]},
                            "restore_every_class_view")
                    for j, (b0, b1) in enumerate(zip(ent[I_BUILTINS], snap[I_BUILTINS])):
                        if b0 != b1:
                            add("not-restored:builtin-whiteChars", i, {"builtin": str(W.builtins[j]), "value": b0},
                                {"builtin": str(W.builtins[j]), "value": b1}, "restore_total_and_exact")
                            break
        else:
            k = c[0]
            if k == "packrat":
                force = c[2]
                if not force and prev[I_LR] is True:
                    if err != "RuntimeError" or snap != prev:
                        add("packrat-not-refused-under-lr", i, "RuntimeError, nothing changed", err, "packrat_lr_exclusive")
                elif not force and prev[I_PK] is True:
                    if err != "ok" or snap != prev:
                        add("enable_packrat-not-idempotent", i, "no change (same cache object and size)",
                            {"err": err, "cache": snap[I_CACHE]}, "enablePackrat_idempotent")
                else:
                    want = Sym("unbounded") if c[1] is None else [Sym("fifo"), c[1]]
                    if err != "ok" or snap[I_PK] is not True or snap[I_LR] is not False or snap[I_CACHE][1] != want \
                            or snap[I_PSEL] != "cache":
                        add("enable_packrat-wrong-result", i, {"packrat": want, "lr": False},
                            {"err": err, "packrat": o_now["packrat"], "lr": snap[I_LR], "_parse": snap[I_PSEL]},
                            "packrat_lr_exclusive")
            elif k == "lr":
                force = c[2]
                if not force and prev[I_PK] is True:
                    if err != "RuntimeError" or snap != prev:
                        add("lr-not-refused-under-packrat", i, "RuntimeError, nothing changed", err, "packrat_lr_exclusive")
                else:
                    if err == "RuntimeError":
                        add("lr-refused-wrongly", i, "no RuntimeError", err, "packrat_lr_exclusive")
                    if force and snap[I_PK] is not False:
                        add("lr-force-leaves-packrat", i, "packrat off", snap[I_PK], "packrat_lr_exclusive")
                    if c[1] is not None and c[1] <= 0:
                        if err != "NotImplementedError":
                            add("lr-bad-capacity-accepted", i, "NotImplementedError", err, "packrat_lr_exclusive")
                    elif err == "ok":
                        want = Sym("unbounded") if c[1] is None else [Sym("lru"), c[1]]
                        if snap[I_LR] is not True or snap[I_MEMO][1] != want:
                            add("enable_left_recursion-wrong-result", i, want, o_now["left_recursion"], "packrat_lr_exclusive")
            elif k == "setkw":
                if snap[I_KW] != c[1]:
                    add("setkw-default-not-set", i, {"Keyword.DEFAULT_KEYWORD_CHARS": c[1]},
                        {"Keyword.DEFAULT_KEYWORD_CHARS": snap[I_KW]}, "route_irrelevant")
            elif k == "lit":
                if snap[I_LIT] != c[1]:
                    add("inline-literal-class-not-set", i, LIT_CLASSES[c[1]], snap[I_LIT], "route_irrelevant")
            elif k == "setws":
                ch = c[1]
                w = "".join(sorted(set(ch)))
                if snap[I_WS] != ch:
                    add("setws-default-not-set", i, ch, snap[I_WS], "default_ws_scope_partial")
                if snap[I_USERS] != prev[I_USERS]:
                    add("setws-changes-existing-user-expression", i, prev[I_USERS], snap[I_USERS], "default_ws_scope_partial")
                for j, (b0, b1) in enumerate(zip(prev[I_BUILTINS], snap[I_BUILTINS])):
                    want = [w, True, b0[2], b0[3]] if b0[1] is True else b0
                    if b1 != want:
                        add("setws-builtin-wrong", i, {"builtin": str(W.builtins[j]), "value": want},
                            {"builtin": str(W.builtins[j]), "value": b1}, "default_ws_scope_partial")
                        break
            elif k in ("new", "newfwd"):
                w = "".join(sorted(set(prev[I_WS])))
                want = [w, True, k == "newfwd", True]
                if snap[I_USERS] != prev[I_USERS] + [want]:
                    add("new-expression-wrong-whitespace", i, want, snap[I_USERS][-1:], "default_ws_scope_partial")
            elif k == "newalt":
                if c[1] < len(prev[I_USERS]):
                    w = "".join(sorted(set(prev[I_WS])))
                    want = [w, True, False, prev[I_USERS][c[1]][3]]
                    if snap[I_USERS] != prev[I_USERS] + [want]:
                        add("new-alternation-wrong-whitespace", i, want, snap[I_USERS][-1:], "alt_ws_scope")
            elif k in ("leavews", "ignorews"):
                want = [list(u) for u in prev[I_USERS]]
                if c[1] < len(want):
                    want[c[1]][3] = k == "ignorews"
                if snap[I_USERS] != want:
                    add(f"{'leave' if k == 'leavews' else 'ignore'}_whitespace-changes-more-than-the-flag", i,
                        {"expression": c[1], "users": want}, {"users": snap[I_USERS]}, "leave_ignore_only_flag")
                if snap[:I_USERS] != prev[:I_USERS]:
                    add("leave/ignore_whitespace-changes-a-setting-or-built-in", i, "no setting or built-in changes",
                        "changed", "leave_ignore_only_flag")
            elif k == "exprws":
                want = [list(u) for u in prev[I_USERS]]
                if c[1] < len(want):
                    want[c[1]] = ["".join(sorted(set(c[2]))), c[3], want[c[1]][2], True]
                if snap[I_USERS] != want:
                    add("set_whitespace_chars-wrong-attributes", i, {"expression": c[1], "users": want},
                        {"users": snap[I_USERS]}, "default_ws_scope_partial")
            elif k == "copy":
                if c[1] < len(prev[I_USERS]):
                    e = prev[I_USERS][c[1]]
                    # whatever e[3] (skipWhitespace) is: copy_ws_whatever_skip
                    want = [e[0], e[1], False, e[3]] if e[2] is True else \
                        ["".join(sorted(set(prev[I_WS]))), True, False, e[3]] if e[1] is True else e
                    if snap[I_USERS] != prev[I_USERS] + [want]:
                        add("copy-wrong-whitespace", i, {"copy of": e, "default": prev[I_WS], "copy": want},
                            snap[I_USERS][-1:], "copy_ws_whatever_skip")
            elif k == "wrap":
                if c[1] < len(prev[I_USERS]):
                    e = prev[I_USERS][c[1]]
                    if snap[I_USERS] != prev[I_USERS] + [[e[0], e[1], False, e[3]]]:
                        add("composite-does-not-inherit-whitespace", i, [e[0], e[1], False, e[3]], snap[I_USERS][-1:],
                            "default_ws_scope_partial")
            elif k == "fwdassign":
                n = len(prev[I_USERS])
                valid = c[1] < n and c[2] < n and c[1] != c[2] and (
                    probes is None or (c[1] < len(probes[i][3]) and probes[i][3][c[1]] == "Forward"))
                if valid:
                    src = prev[I_USERS][c[2]]
                    want = list(prev[I_USERS])
                    want[c[1]] = [src[0], src[1], False, src[3]]
                    if snap[I_USERS] != want:
                        add("forward-assignment-wrong-whitespace-attributes", i,
                            {"assigned expression": src, "forward": want[c[1]]}, {"forward": snap[I_USERS][c[1]]},
                            "forward_ws_scope_partial")
                elif snap[I_USERS] != prev[I_USERS]:
                    add("user-expression-changed", i, prev[I_USERS], snap[I_USERS], "users_untouched")
        if (isinstance(c, str) or c[0] not in ("exprws", "fwdassign", "leavews", "ignorews")) and snap[I_USERS][:len(prev[I_USERS])] != prev[I_USERS]:
            add("user-expression-changed", i, prev[I_USERS], snap[I_USERS], "users_untouched")
        prev = snap
    return probs


# ---- parse behaviour around set_default_whitespace_chars ------------------------------------------
PROBE_CHARS = [" ", "\n", "x", "-", "."]


def _skips(expr, body):
    """set of probe characters the expression skips before its match"""
    out = set()
    for ch in PROBE_CHARS:
        try:
            common.with_alarm(5, expr.parse_string, ch + ch + body)
            out.add(ch)
        except common.CaseTimeout:
            out.add("hang:" + ch)
        except Exception:  # noqa: BLE001
            pass
    return out


def _assigned_forward(pp, e):
    f = pp.Forward()
    f <<= e
    return f


def _skips_inner(expr, left, right):
    """set of probe characters skipped BETWEEN the two parts of a composite"""
    out = set()
    for ch in PROBE_CHARS:
        try:
            common.with_alarm(5, expr.parse_string, left + ch + ch + right)
            out.add(ch)
        except common.CaseTimeout:
            out.add("hang:" + ch)
        except Exception:  # noqa: BLE001
            pass
    return out


def ws_behaviour_case(chars, in_context):
    """build expressions before / after set_default_whitespace_chars(chars) (optionally inside a context that is
    then left) and observe, by parsing, which probe characters each one skips. Returns list of problems."""
    W = world()
    pp = W.pp
    W.hard_reset()
    probs = []
    try:
        orig = W.pristine["ws"]
        mk = [("Word", lambda: pp.Word("ab"), "ab"), ("Literal", lambda: pp.Literal("ab"), "ab"),
              ("And", lambda: pp.Literal("a") + pp.Literal("b"), "ab"),
              ("Group", lambda: pp.Group(pp.Word("ab")), "ab"),
              ("Forward", lambda: _assigned_forward(pp, pp.Word("ab")), "ab"),
              ("Forward<<=And", lambda: _assigned_forward(pp, pp.Literal("a") + pp.Literal("b")), "ab"),
              ("Group(Forward)", lambda: pp.Group(_assigned_forward(pp, pp.Word("ab"))), "ab"),
              ("Suppress(Forward)+Empty", lambda: pp.Suppress(_assigned_forward(pp, pp.Literal("ab"))) + pp.Empty(), "ab")]
        pre = [(n, f(), body) for n, f, body in mk]
        # composites: the whitespace BETWEEN their parts (every part of a copy is an expression created afterwards)
        mk2 = [("And", lambda: pp.Literal("a") + pp.Literal("b")), ("And of Words", lambda: pp.Word("a") + pp.Word("b")),
               ("MatchFirst over And", lambda: (pp.Literal("a") + pp.Literal("b")) | pp.Literal("zz")),
               ("Or over And", lambda: (pp.Literal("a") + pp.Literal("b")) ^ pp.Literal("zz")),
               # (Each is left out: a copy of a USED Each keeps the original's cached expression groups - registered under
               #  C12 as each_copy_keeps_cached_groups)
               ("And over Group", lambda: pp.Group(pp.Literal("a")) + pp.Group(pp.Literal("b")))]
        pre2 = [(n, f()) for n, f in mk2]
        # expressions that currently do not skip at all; they still follow the default (copyDefaultWhiteChars)
        tight = [(n + ".leave_whitespace()", f().leave_whitespace(), body) for n, f, body in mk]
        own = pp.Word("ab").set_whitespace_chars("-")
        builtin = [("common.integer", pp.common.integer, "12"), ("quoted_string", pp.quoted_string, '"q"')]
        ctx = None
        if in_context:
            ctx = pp.testing.reset_pyparsing_context()
            ctx.__enter__()
        pp.ParserElement.set_default_whitespace_chars(chars)

        def expect(name, expr, body, want, clause):
            got = _skips(expr, body)
            if got != want:
                probs.append({"atom": f"ws-behaviour:{clause}", "at": name, "expected": sorted(want),
                              "actual": sorted(got), "theorem": "default_ws_scope_partial (behaviour, oracle only)"})

        inside = set(chars) & set(PROBE_CHARS)
        before = set(orig) & set(PROBE_CHARS)
        for n, e, body in pre:
            expect("pre-existing " + n, e, body, before, "existing-user-expression-changed")
            expect("copy of pre-existing " + n, e.copy(), body, inside, "copy-does-not-follow-default")
            expect("pre-existing " + n + "('name')", e("name"), body, inside, "copy-does-not-follow-default")
        def expect_inner(name, expr, want, clause):
            got = _skips_inner(expr, "a", "b")
            if got != want:
                probs.append({"atom": f"ws-behaviour:{clause}", "at": name + " (between its parts)", "expected": sorted(want),
                              "actual": sorted(got), "theorem": "default_ws_scope_partial (behaviour, oracle only)"})

        for n, e in pre2:
            expect_inner("pre-existing " + n, e, before, "existing-user-expression-changed")
            for how, cpy in (("copy()", e.copy()), ("expr()", e()), ("expr('name')", e("name")),
                             ("set_results_name('name')", e.set_results_name("name"))):
                expect_inner(f"{how} of pre-existing {n}", cpy, inside, "copy-does-not-follow-default")
            expect_inner("pre-existing " + n + " (after copies)", e, before, "existing-user-expression-changed")
        for n, f in mk2:
            expect_inner("new " + n, f(), inside, "new-expression-does-not-follow-default")
        for n, e, body in tight:
            expect("pre-existing " + n, e, body, set(), "existing-user-expression-changed")
            expect("copy of pre-existing " + n, e.copy(), body, set(), "copy-of-leave_whitespace-skips")
            for how, cpy in (("copy()", e.copy()), ("expr()", e()), ("expr('name')", e("name")),
                             ("set_results_name('name')", e.set_results_name("name"))):
                expect(f"{how} of pre-existing {n}, then ignore_whitespace()", cpy.ignore_whitespace(), body, inside,
                       "copy-of-leave_whitespace-does-not-follow-default")
            expect("pre-existing " + n + " (after copies)", e, body, set(), "existing-user-expression-changed")
        inner_tight = [(n + ".leave_whitespace()", f().leave_whitespace(), body) for n, f, body in mk]
        for n, e, body in pre[:2]:
            expect("new composite over pre-existing " + n, pp.Group(e), body, before, "composite-does-not-inherit-whitespace")
        expect("pre-existing with own whitespace", own, "ab", {"-"}, "existing-user-expression-changed")
        expect("copy of expression with own whitespace", own.copy(), "ab", {"-"}, "copy-of-own-whitespace-changed")
        for n, f, body in mk:
            expect("new " + n, f(), body, inside, "new-expression-does-not-follow-default")
        for n, e, body in builtin:
            expect("builtin " + n, e, body, inside, "builtin-does-not-follow-default")
        if ctx is not None:
            ctx.__exit__(None, None, None)
            for n, f, body in mk:
                expect("new after exit " + n, f(), body, before, "new-expression-after-exit")
            for n, e, body in builtin:
                expect("builtin after exit " + n, e, body, before, "builtin-after-exit")
            for n, e, body in pre:
                expect("pre-existing after exit " + n, e, body, before, "existing-user-expression-changed")
            for n, e in pre2:
                expect_inner("pre-existing after exit " + n, e, before, "existing-user-expression-changed")
                expect_inner("copy after exit of pre-existing " + n, e.copy(), before, "copy-after-exit-does-not-follow-entry-default")
            for where, lst in (("before", tight), ("inside", inner_tight)):
                for n, e, body in lst:
                    expect(f"after exit: {n} built {where} the context", e, body, set(), "existing-user-expression-changed")
                    expect(f"after exit: copy of {n} built {where} the context, then ignore_whitespace()",
                           e.copy().ignore_whitespace(), body, before, "copy-after-exit-does-not-follow-entry-default")
    finally:
        W.hard_reset()
    return probs


# =================================================================================================
# generated facts
# =================================================================================================
def _lstr(s):
    out = ['"']
    for ch in s:
        o = ord(ch)
        if ch == "\\":
            out.append("\\\\")
        elif ch == '"':
            out.append('\\"')
        elif ch == "\n":
            out.append("\\n")
        elif ch == "\t":
            out.append("\\t")
        elif ch == "\r":
            out.append("\\r")
        elif o < 32 or o > 126:
            out.append("\\u{%x}" % o)
        else:
            out.append(ch)
    return "".join(out) + '"'


def _lchar(ch):
    m = {"\\": "'\\\\'", "'": "'\\''", "\n": "'\\n'", "\t": "'\\t'", "\r": "'\\r'"}
    if ch in m:
        return m[ch]
    o = ord(ch)
    return "'\\u{%x}'" % o if o < 32 or o > 126 else f"'{ch}'"


def gen_facts(W):
    d, c, p = W.diag, W.compat, W.pristine
    ls = lambda xs: "[" + ", ".join(_lstr(x) for x in xs) + "]"
    bl = ",\n  ".join(
        "⟨[" + ", ".join(_lchar(ch) for ch in sorted(w)) + "], " + ("true" if cd else "false") + ", " + ("true" if fe else "false") + ", "
        + ("true" if sk else "false") + "⟩"
        for (w, cd, sk), fe in zip(p["builtins"], p["builtins_fwd_empty"]))
    shadows = ", ".join(f"({_lstr(n)}, {_lstr(a)})" for n, a in W.pristine_shadows)
    return f"""import PPModel.Mod.Settings
/-! GENERATED by harness/props/c19.py from the live package in /repo (class data of `__diag__` / `__compat__`,
    import-time defaults, whitespace attributes of the distinct objects in `core._builtin_exprs`).
    Rewritten on every check; `PPProofs/Props/C19.lean` consumes it. Do not edit. -/
namespace PP.Settings

def liveCfg : Cfg :=
  {{ diagAll := {ls(d._all_names)}
    diagFixed := {ls(d._fixed_names)}
    diagWarn := {ls(getattr(d, "_warning_names", []))}
    compatAll := {ls(c._all_names)}
    compatFixed := {ls(c._fixed_names)} }}

def liveDefaultWs : String := {_lstr(p["ws"])}

def liveKwChars : String := {_lstr(p["kw"])}

def liveBuiltins : List Expr := [
  {bl}]

/-- strict subclasses of ParserElement / Keyword with an own `__dict__` entry for a setting attribute -/
def liveShadows : List (String × String) := [{shadows}]

def liveInit : State := initState liveCfg liveDefaultWs liveKwChars liveBuiltins liveShadows

end PP.Settings
"""


# =================================================================================================
# generators
# =================================================================================================
WS_CHOICES = [" \n\t\r", " ", " \t", "x", "", "\n", "yz ", "  ", " \t\r", "-x"]
KW_CHOICES = ["abc", "", "ABCDEFGHIJKLMNOPQRSTUVWXYZabcdefghijklmnopqrstuvwxyz0123456789_$", "a-b_"]
PK_SIZES = [None, 0, 1, 5, 64, 128, 128]
LR_CAPS = [None, None, 1, 3, 8, 0, -1]


def _track(kinds, op):
    """generator-side bookkeeping of which user expressions are Forwards"""
    k = op[0]
    if k == "newfwd":
        kinds.append("fwd")
    elif k in ("new", "newalt"):
        kinds.append("other")
    elif k == "wrap" and op[1] < len(kinds):
        kinds.append("other")
    elif k == "copy" and op[1] < len(kinds):
        kinds.append(kinds[op[1]])


def gen_expr_op(rng, kinds):
    """operations on user expressions + default-whitespace changes (dense where copies / Forwards / wrappers
    meet set_default_whitespace_chars)"""
    n = len(kinds)
    fwds = [i for i, k in enumerate(kinds) if k == "fwd"]
    k = rng.choice(["setws", "setws", "setws", "new", "newfwd", "fwdassign", "fwdassign", "wrap", "wrap", "copy",
                    "copy", "copy", "exprws", "leavews", "leavews", "ignorews"])
    if k == "setws" or n == 0:
        return ["setws", rng.choice(WS_CHOICES)] if k == "setws" else rng.choice([["new"], ["newfwd"]])
    if k == "fwdassign":
        if not fwds or n < 2:
            return ["newfwd"]
        i = rng.choice(fwds)
        j = rng.choice([x for x in range(n) if x != i])
        return ["fwdassign", i, j]
    if k in ("wrap", "copy", "leavews", "ignorews"):
        return [k, rng.randrange(n)]
    if k == "exprws":
        return ["exprws", rng.randrange(n), rng.choice(WS_CHOICES), rng.random() < 0.3]
    return [k]


def _routed(rng, op):
    """the same setter call, sometimes through another class of the hierarchy / an instance / a user subclass"""
    if not isinstance(op, str) and op[0] in ("setws", "setkw", "lit", "packrat", "lr", "disable", "reset") \
            and rng.random() < 0.4:
        return op + [rng.randrange(1, 18)]
    return op


def gen_op(rng, W, kinds, mode_heavy=True, expr_heavy=False):
    return _routed(rng, _gen_op(rng, W, kinds, mode_heavy, expr_heavy))


def _gen_op(rng, W, kinds, mode_heavy=True, expr_heavy=False):
    n_users = len(kinds)
    r = rng.random()
    dn = list(W.diag._all_names)
    if expr_heavy and r < 0.8:
        return gen_expr_op(rng, kinds)
    if not expr_heavy and r > 0.88:
        return gen_expr_op(rng, kinds)
    if r < (0.45 if mode_heavy else 0.2):
        k = rng.choice(["packrat", "packrat", "lr", "lr", "disable", "reset"])
        if k == "packrat":
            return ["packrat", rng.choice(PK_SIZES), rng.random() < 0.45]
        if k == "lr":
            return ["lr", rng.choice(LR_CAPS), rng.random() < 0.45]
        return [k]
    k = rng.choice(["setws", "setws", "setkw", "lit", "verbose", "diag", "diag", "allwarn", "compat", "compatassign",
                    "new", "copy", "exprws", "wrap"])
    if k == "setws":
        return ["setws", rng.choice(WS_CHOICES)]
    if k == "setkw":
        return ["setkw", rng.choice(KW_CHOICES)]
    if k == "lit":
        return ["lit", rng.randrange(len(LIT_CLASSES))]
    if k == "verbose":
        return ["verbose", rng.random() < 0.5]
    if k == "diag":
        return ["diag", rng.choice(dn + ["no_such_flag"]) if rng.random() < 0.9 else "no_such_flag", rng.random() < 0.6]
    if k == "compat":
        return ["compat", rng.choice(list(W.compat._all_names) + ["no_such_flag"]), rng.random() < 0.5]
    if k == "compatassign":
        return ["compatassign", rng.choice(list(W.compat._all_names)), rng.random() < 0.5]
    if k == "copy":
        return ["copy", rng.randrange(n_users + 1)] if n_users else ["new"]
    if k == "wrap":
        return ["wrap", rng.randrange(n_users + 1)] if n_users else ["new"]
    if k == "exprws":
        return ["exprws", rng.randrange(n_users + 1), rng.choice(WS_CHOICES), rng.random() < 0.3] if n_users else ["new"]
    return [k]


def gen_case(rng, W, malformed=False, expr_heavy=False):
    setup, users = [], []
    for _ in range(rng.choice([0, 0, 1, 2, 3, 4])):
        op = gen_op(rng, W, users, expr_heavy=expr_heavy)
        _track(users, op)
        setup.append(op)
    cmds, depth = [], 0
    n = rng.randint(1, 14)
    if not malformed:
        cmds.append("enter")
        depth = 1
    for _ in range(n):
        r = rng.random()
        if r < 0.12 and depth < 4:
            cmds.append("enter" if rng.random() < 0.7 else "reenter")
            depth += 1
        elif r < 0.22 and (depth > 1 or (malformed and r < 0.18)):
            cmds.append("exit" if rng.random() < 0.7 else "exitcopy")
            depth = max(0, depth - 1)
        elif r < 0.25:
            cmds.append("restorelast")
        else:
            op = gen_op(rng, W, users, expr_heavy=expr_heavy)
            _track(users, op)
            cmds.append(op)
    if not malformed:
        cmds.extend([rng.choice(["exit", "exit", "exitcopy"]) for _ in range(depth)])
    elif rng.random() < 0.5:
        cmds.extend(["exit"] * rng.randint(0, depth + 1))
    return {"setup": setup, "cmds": cmds}


def gen_ws_toggle_case(rng, W):
    """directed histories: an expression (leaf, wrapper, assigned Forward, MatchFirst/Or) is leave_whitespace()d, the
    default whitespace changes (directly, by entering / leaving a context), a copy is made and told to
    ignore_whitespace() again - inside the same context, in a nested one, and after the context in which the
    original was built has been left; random expression operations in between"""
    kinds, setup, cmds = [], [], []

    def emit(dst, op):
        _track(kinds, op)
        dst.append(op)

    def noise(dst, p=0.25):
        while rng.random() < p:
            emit(dst, gen_expr_op(rng, kinds))

    def build(dst):
        """a source expression; returns its index"""
        emit(dst, ["new"])
        i = len(kinds) - 1
        r = rng.random()
        if r < 0.25:
            emit(dst, ["wrap", i])
            i = len(kinds) - 1
        elif r < 0.45:
            emit(dst, ["newfwd"])
            emit(dst, ["fwdassign", len(kinds) - 1, i])
            i = len(kinds) - 1
        return i

    def copy_and_ignore(dst, i):
        emit(dst, ["copy", i])
        k = len(kinds) - 1
        noise(dst, 0.1)
        if rng.random() < 0.85:
            dst.append(["ignorews", k])
        return k

    if rng.random() < 0.4:
        setup.append(["setws", rng.choice(WS_CHOICES)])
    outer = None
    if rng.random() < 0.5:
        outer = build(setup)
        if rng.random() < 0.8:
            setup.append(["leavews", outer])
    depth = 0
    cmds.append("enter")
    depth += 1
    noise(cmds)
    if rng.random() < 0.6:
        cmds.append(["setws", rng.choice(WS_CHOICES)])
    inner = build(cmds)
    noise(cmds, 0.15)
    if rng.random() < 0.85:
        cmds.append(["leavews", inner])
    if rng.random() < 0.4:
        cmds.append(rng.choice(["enter", "reenter"]))
        depth += 1
    if rng.random() < 0.8:
        cmds.append(["setws", rng.choice(WS_CHOICES)])
    noise(cmds, 0.15)
    for src in (inner, outer):
        if src is not None and rng.random() < 0.7:
            copy_and_ignore(cmds, src)
    while depth > 0:
        cmds.append(rng.choice(["exit", "exit", "exitcopy"]))
        depth -= 1
        noise(cmds, 0.1)
        for src in (inner, outer):
            if src is not None and rng.random() < 0.6:
                copy_and_ignore(cmds, src)
    if rng.random() < 0.3:
        cmds.append(["setws", rng.choice(WS_CHOICES)])
        copy_and_ignore(cmds, inner)
    return {"setup": setup, "cmds": cmds}


MODE_ENTRIES = [[], [["packrat", None, False]], [["packrat", 64, False]], [["lr", None, False]], [["lr", 8, False]]]
MODE_OPS = [["packrat", 5, False], ["packrat", 5, True], ["packrat", None, True], ["lr", None, False],
            ["lr", None, True], ["lr", 3, True], ["lr", 0, True], ["disable"], "enter", "exit", "reenter",
            "exitcopy", "restorelast"]


def exhaustive_mode_cases(maxlen):
    import itertools

    out = []
    for ent in MODE_ENTRIES:
        for n in range(0, maxlen + 1):
            for seq in itertools.product(MODE_OPS, repeat=n):
                d, ok = 1, True
                for c in seq:
                    if c in ("enter", "reenter"):
                        d += 1
                    elif c in ("exit", "exitcopy"):
                        d -= 1
                        if d < 1:
                            ok = False
                            break
                if ok:
                    out.append({"setup": list(ent), "cmds": ["enter", *seq, *(["exit"] * d)]})
    return out


# =================================================================================================
# shrinking
# =================================================================================================
def problems_of(case):
    r = _worker(case)
    if r.get("hang"):
        return [{"atom": "hang", "at": -1, "expected": "terminates", "actual": "hang", "theorem": None}]
    return r["problems"]


def shrink(case, atom, budget=200):
    """greedy one-at-a-time removal of setup ops / commands while a problem with the same atom remains"""
    cur = {"setup": list(case["setup"]), "cmds": list(case["cmds"])}
    changed = True
    while changed and budget > 0:
        changed = False
        for key in ("setup", "cmds"):
            i = 0
            while i < len(cur[key]) and budget > 0:
                cand = {**cur, key: cur[key][:i] + cur[key][i + 1:]}
                budget -= 1
                if any(p["atom"] == atom for p in problems_of(cand)):
                    cur, changed = cand, True
                else:
                    i += 1
    return cur


# =================================================================================================
# run
# =================================================================================================
def run(ctx):
    W = world()
    W.hard_reset()
    gen_src = gen_facts(W)
    proof_ok = ctx.proof_leg("PPProofs.Props.C19", THEOREMS, generated={GEN_REL: gen_src})
    ctx.rule.append(
        "histories: entry configuration = 0..4 random setters from the pristine import state; body = 1..14 commands "
        "(45% mode setters incl. force=True and bad capacities, other setters incl. unknown flag names, expression "
        "new/copy/composite/set_whitespace_chars, nested enter/exit to depth 4 incl. re-entering the last exited context "
        "object, exit through ctx.copy(), and restore() called again on an exited context) wrapped in a context; malformed stream = "
        "unbalanced enter/exit; expr-histories = 80% operations on user expressions (leaves, MatchFirst/Or, Forward "
        "created / assigned with <<= before or after a default-whitespace change, Group/And/Suppress/Opt/OneOrMore/"
        "ZeroOrMore wrappers over leaves and over Forwards, copy()/expr()/expr('name'), set_whitespace_chars) and "
        "set_default_whitespace_chars inside nested contexts, leave_whitespace()/ignore_whitespace() (both spellings, "
        "recursive or not) on any user expression, attributes (whiteChars, copyDefaultWhiteChars, skipWhitespace) "
        "compared after every command and the "
        "characters really skipped by every parsable user expression compared with its attributes at the end; "
        "setters (set_default_whitespace_chars, set_default_keyword_chars, inline_literals_using, enable_packrat, "
        "enable_left_recursion, disable_memoization, reset_cache) are called in 40% of the cases through another route: "
        "a subclass (Word, Literal, Keyword, CaselessKeyword, Forward, And, Regex, Token, MatchFirst), an instance, a "
        "user-defined subclass or its instance, each with both spellings; every snapshot lists the (class, attribute) "
        "pairs of all strict subclasses of ParserElement / Keyword that have an own entry for a setting attribute "
        "(compared with the model after every command and with the entry value at every exit), and new Keyword / "
        "CaselessKeyword / user-subclass keywords and Word / Literal / CaselessKeyword expressions are probed after "
        "every command; ws-toggle-histories = directed: a leaf / wrapper / assigned Forward / MatchFirst is built (before or inside a "
        "context) and leave_whitespace()d, the default changes (setter, nested enter, exits), copies are made inside and "
        "after the contexts and ignore_whitespace()d, random expression operations in between; exhaustive stream = 5 mode entry configurations x all sequences up to length L over "
        "13 mode commands; non-trivial = the body changes at least one observable setting; every built-in's whiteChars "
        "is compared at every context exit (the witness of the fixed finding unsynced_builtin_whitechars_not_restored "
        "runs from the corpus as an ordinary regression case)"
    )
    ctx.assumptions.append(
        "C19: cache/memo contents are not settings and are not modelled; whitespace *skipping* behaviour is "
        "oracle-checked on the real parser for composites, the Lean theorems speak about the whiteChars/"
        "copyDefaultWhiteChars/skipWhitespace attributes and the transcribed whitespace loop of preParse; "
        "settings are changed only through the public setters listed in PP.Settings.Op (direct assignment only for "
        "verbose_stacktrace and __compat__ flags)")

    # ---- corpus first -------------------------------------------------------------------------------
    corpus_cases = []
    if CORPUS.exists():
        for f in sorted(CORPUS.glob("*.json")):
            d = json.loads(f.read_text())
            corpus_cases.append(d["case"] if "case" in d else d)
    # ---- cases ------------------------------------------------------------------------------------------
    rng = ctx.subrng("histories")
    streams = [
        ("corpus", corpus_cases),
        ("exhaustive-modes", exhaustive_mode_cases(ctx.budget(2, 3))),
        ("histories", [gen_case(rng, W) for _ in range(ctx.budget(24000, 300000))]),
        ("malformed", [gen_case(rng, W, malformed=True) for _ in range(ctx.budget(4000, 50000))]),
        ("expr-histories", [gen_case(rng, W, expr_heavy=True) for _ in range(ctx.budget(9000, 90000))]),
        ("ws-toggle-histories", [gen_ws_toggle_case(rng, W) for _ in range(ctx.budget(4000, 40000))]),
    ]
    all_problems = []  # (case, problem)
    diff_cases = []
    for name, cases in streams:
        if not cases:
            continue
        res = common.pmap(_worker, cases)
        W.hard_reset()
        hangs = [c for c, r in zip(cases, res) if r.get("hang")]
        if hangs:
            raise common.HarnessError(f"case hang in stream {name}: {hangs[0]}")
        lines = [r["line"] for r in res]
        impl = [r["impl"] for r in res]

        nt = {id(c): r["nt"] for c, r in zip(cases, res)}
        diffs = ctx.correspond(
            name, cases, lines, impl,
            nontrivial=lambda c, io: nt[id(c)],
            outcome_of=lambda c, io: f"len{min(len(c['cmds']) // 4 * 4, 16)}")
        st = ctx.cov["streams"][name]
        st["max_depth"] = max(r["depth"] for r in res)
        errs = {}
        for r in res:
            for e in r["errs"]:
                errs[e] = errs.get(e, 0) + 1
        st["cases_with_outcome"] = errs
        for i in diffs:
            diff_cases.append(cases[i])
        for c, r in zip(cases, res):
            for p in r["problems"]:
                all_problems.append((c, p))

    # ---- whitespace behaviour on the real parser ----------------------------------------------------------
    n_b = 0
    for chars in WS_CHOICES:
        for in_ctx in (False, True):
            n_b += 1
            for p in ws_behaviour_case(chars, in_ctx):
                all_problems.append(({"ws_behaviour": {"chars": chars, "in_context": in_ctx}}, p))
    ctx.count_cases("ws-behaviour", n_b, distinct_keys=[f"{c}|{k}" for c in WS_CHOICES for k in (0, 1)],
                    samples=[{"chars": "x", "in_context": True}])

    # ---- search: a broken obligation / correspondence diff alone is not a violation ------------------------
    if (not proof_ok or diff_cases or ctx.broken) and not all_problems:
        srng = ctx.subrng("search")
        extra = []
        for c in diff_cases[:50]:
            for j in range(1, len(c["cmds"]) + 1):
                pre = [x for x in c["cmds"][:j]]
                d = sum(1 for x in pre if x in ("enter", "reenter")) - sum(1 for x in pre if x in ("exit", "exitcopy"))
                extra.append({"setup": c["setup"], "cmds": ["enter", *pre, *(["exit"] * max(d + 1, 1))]})
        extra += exhaustive_mode_cases(3)
        extra += [gen_case(srng, W) for _ in range(ctx.budget(20000, 60000))]
        extra += [gen_case(srng, W, expr_heavy=True) for _ in range(ctx.budget(8000, 30000))]
        extra += [gen_ws_toggle_case(srng, W) for _ in range(ctx.budget(6000, 30000))]
        res = common.pmap(_worker, extra)
        W.hard_reset()
        n_p = 0
        for c, r in zip(extra, res):
            for p in r.get("problems", []):
                all_problems.append((c, p))
                n_p += 1
        ctx.count_cases("search", len(extra), outcomes={"problems": n_p})

    # ---- report: one shrunk failing input per class of failure --------------------------------------------
    by_atom = {}
    for c, p in all_problems:
        a = p["atom"]
        size = len(c.get("cmds", [])) + len(c.get("setup", []))
        if a not in by_atom or size < by_atom[a][2]:
            by_atom[a] = (c, p, size)

    def prio(a):
        return (0 if a.startswith(("exit-raises", "enter-raises")) else 1 if a.startswith("not-restored")
                else 2 if a.startswith("restore-again") else 3, a)

    for a in sorted(by_atom, key=prio)[:6]:
        c, p, _ = by_atom[a]
        if "cmds" in c:
            c = shrink(c, a)
            ps = [q for q in problems_of(c) if q["atom"] == a]
            p = ps[0] if ps else p
        elif "ws_behaviour" in c:
            # which expression of the battery: built how, copied how, parsed where
            c = {"ws_behaviour": {**c["ws_behaviour"], "expression": p["at"]}}
        ctx.fail_input(a, c, p["expected"], p["actual"], theorem=(NS + p["theorem"]) if p["theorem"] and " " not in p["theorem"] else p["theorem"],
                       how="harness.props.c19.run_real(world(), case): apply case['setup'] from the pristine import state, "
                           "then case['cmds'] ('enter'/'exit' = reset_pyparsing_context().__enter__/__exit__); an optional "
                           "trailing number of setws/setkw/lit/packrat/lr/disable/reset is the route the static setter is "
                           "called through: setkw -> " + _route_names(W.kw_routes) + "; others -> "
                           + _route_names(W.pe_routes) + " (index modulo the table length; 0/absent = the base class); "
                           "case['ws_behaviour']: harness.props.c19.ws_behaviour_case(chars, in_context) - expected/"
                           "actual are the probe characters the named expression skips before its match")
    W.hard_reset()


def replay(data):
    W = world()
    case = data.get("case")
    if isinstance(case, dict) and "ws_behaviour" in case:
        b = case["ws_behaviour"]
        probs = ws_behaviour_case(b["chars"], b["in_context"])
        if data.get("kind") and "expression" in b:
            return any(p["atom"] == data["kind"] and p["at"] == b["expression"] for p in probs)
        return bool(probs)
    if isinstance(case, dict) and "cmds" in case:
        atom = data.get("kind")
        probs = problems_of({"setup": case.get("setup", []), "cmds": case["cmds"]})
        return any(p["atom"] == atom for p in probs) if atom else bool(probs)
    ctx = common.Ctx("C19", "quick", data.get("seed", 0))
    run(ctx)
    return bool(ctx.broken or ctx.fail_inputs)
