"""C01 — combinators obey PEG semantics with pyparsing's whitespace rule.

proof:           lean/PPProofs/Props/C01.lean — the clauses of the PEG reading as theorems about the transcribed parseImpl
                 bodies, for all sub-expression behaviours, inputs and locations: sequence = chain of every element in
                 order (and_rest_iff_chain), `|` = first alternative that matches (matchfirst_first), `^` = longest,
                 leftmost on ties (or_longest_leftmost over the stable sort), repetition greedy / never gives back
                 (rep_greedy_no_giveback, rep_iterations_advance), lookaheads consume nothing, Opt/ZeroOrMore fall back to
                 the empty match at the post-skip location, Group/Suppress/Combine token shapes, and the whitespace rule
                 (skipWhite_stops / skips_only_white / preParse_is_skipWhite / skip_then_match).
correspondence:  the parse model vs the real code (memoization off) on default-whitespace grammars without actions:
                 exhaustive small scopes + random deep grammars with sharing, inputs sampled from the grammar + mutations.
search (oracle): an INDEPENDENT reference interpreter of the PEG reading (harness/peg_ref.py), evaluated on the grammar
                 program, never on pyparsing objects: success/failure and the token tree must agree with parse_string.
"""
from __future__ import annotations

import itertools
import json
import random

from .. import common, corr_parse, gen, gram, peg_ref

META = dict(
    text="(1) CLOSED theorem for the plain fragment (PPProofs/Props/C01Sem.lean over the declarative big-step PEG reading "
         "`Sem` of Props/C01SemDef.lean - one inductive relation with the whitespace rule, ordered choice, greedy "
         "non-backtracking repetition, longest-leftmost `^`, lookaheads, Group/Suppress/Combine/Forward): plain_parse_sound (for EVERY plain node table - "
         "arbitrary sharing and recursion through Forward, any skipWhitespace/whiteChars/callPreparse configuration - every "
         "input, location, callPreParse/doActions value and fuel: a match returned by the transcribed _parseNoCache is the "
         "reading's match with the same end and tokens, a ParseException means the reading has no match, and no fatal "
         "exception or IndexError can come out), sem_deterministic (the reading is a partial function), hence "
         "plain_parse_iff_sem (for every returning run: success <-> Sem derives that match, failure <-> Sem derives 'no "
         "match'), plain_parse_stable / plain_parse_ok_excludes_fail (independent of fuel and doActions), plain_parse_complete "
         "(conversely every result the reading derives at a location <= len+1 is returned once the fuel suffices), so "
         "plain_parse_eq_sem: (exists fuel, parse = ok e ts) <-> Sem derives (e, ts), (exists fuel, parse fails) <-> Sem "
         "derives 'no match', and plain_parse_returns_iff: the algorithm returns for some fuel iff the reading assigns a "
         "result at all (non-returning runs = tasks the reading leaves undefined: a repetition body that does not advance, a "
         "Forward recursing without consuming); parse_string_iff_sem / parse_string_all_iff_sem (the same at the transcribed "
         "entry point parse_string, without and with parse_all); plainTable_iff "
         "(the driver's executable test is exactly the hypothesis). The driver reports per compared grammar whether the "
         "hypothesis holds (evidence: plain_fragment; every small-scope grammar and about 7/8 of the random deep grammars). Plain = Literal, Empty, NoMatch, "
         "StringEnd, Word/CharsNotIn/Keyword/CaselessLiteral/LineEnd/WordStart/WordEnd as given terminal matchers, And, "
         "MatchFirst, Or, Opt (also with a default), OneOrMore/ZeroOrMore, NotAny, FollowedBy, Group, Suppress, Combine, Forward; no "
         "actions/names, ignorables, "
         "error stops, stop_on. "
         "(2) Outside the fragment, clause theorems (PPProofs/Props/C01.lean), each for ALL sub-expression behaviours, inputs, "
         "locations and list shapes: and_rest_iff_chain, matchfirst_first, or_longest_leftmost + sortDesc_head + best_spec + "
         "orPass1_cands (the two-pass Or returns the longest trial match, leftmost on ties; used by the closed theorem), rep_greedy_no_giveback and "
         "rep_iterations_advance, lookahead_consumes_nothing, notany_iff, opt_spec, zeroOrMore_spec, group_nests / "
         "suppress_omits / combine_joins, and the whitespace rule skipWhite_stops / skipWhite_skips_only_white / "
         "preParse_is_skipWhite / skip_then_match. PARTIAL w.r.t. the statement: SkipTo, DelimitedList, "
         "Located, stop_on, actions and ignorables have clause theorems or model coverage only, no closed theorem; Each and Regex are "
         "outside the model (reference interpreter / zoo only). The global statement on the real code is decided by the "
         "independent reference interpreter of the reading (harness/peg_ref.py) run against the real parse_string over "
         "exhaustive small scopes and random deep grammars.",
    note="Trusted: Lean kernel; axioms propext/Classical.choice/Quot.sound; the parse model (transcription of core.py, "
         "node attributes extracted from the live objects, validated differentially on every run; for the terminals "
         "Empty, NoMatch, Literal, _SingleCharLiteral, StringEnd, LineEnd, LineStart (parseImpl), WordStart, WordEnd the transcription is not "
         "trusted but PROVED equal - src_*_eq in PPProofs/Props/LeafSrc.lean, IndexError included - to the Lean "
         "translation of the live parseImpl source that harness/py2lean.py regenerates on every run, modulo the "
         "translator and PPModel/Base/PyStr.lean as the reading of CPython len/index/startswith/in, validated against "
         "CPython itself by C14's stream pystr-vs-cpython); the reference "
         "interpreter is hand-written from the documentation and is only a search oracle.",
    technique="Lean 4 proof: closed soundness + determinism of the transcribed parser against a declarative big-step PEG "
              "semantics (plain fragment), clause theorems elsewhere; differential correspondence; independent "
              "reference-interpreter oracle on the real code",
    design="§5 C01",
)

THEOREMS = [
    "PP.Parse.and_rest_iff_chain", "PP.Parse.matchfirst_first", "PP.Parse.or_longest_leftmost", "PP.Parse.sortDesc_head",
    "PP.Parse.best_spec", "PP.Parse.orPass1_cands", "PP.Parse.rep_greedy_no_giveback", "PP.Parse.rep_iterations_advance",
    "PP.Parse.lookahead_consumes_nothing", "PP.Parse.notany_iff", "PP.Parse.opt_spec", "PP.Parse.zeroOrMore_spec",
    "PP.Parse.group_nests", "PP.Parse.suppress_omits", "PP.Parse.combine_joins", "PP.Parse.skipWhite_stops",
    "PP.Parse.skipWhite_skips_only_white", "PP.Parse.preParse_is_skipWhite", "PP.Parse.skip_then_match",
    # the closed theorem for the plain fragment (Props/C01Sem.lean over the declarative reading Props/C01SemDef.lean)
    "PP.Parse.plain_parse_sound", "PP.Parse.sem_deterministic", "PP.Parse.plain_parse_iff_sem", "PP.Parse.plain_parse_stable",
    "PP.Parse.plain_parse_ok_excludes_fail", "PP.Parse.plainTable_iff", "PP.Parse.plain_parse_complete",
    "PP.Parse.plain_parse_eq_sem", "PP.Parse.plain_parse_returns_iff", "PP.Parse.parse_string_iff_sem",
    "PP.Parse.parse_string_all_iff_sem",
]

# translator tie for the terminals (harness/py2lean.py -> Props/Gen/LeafSrc.lean -> Props/LeafSrc.lean): the leaf functions
# of the parse model are proved equal to the machine-translated live source of the corresponding parseImpl methods
LEAF_SRC_THEOREMS = [
    "PP.Parse.src_empty_eq", "PP.Parse.src_noMatch_eq", "PP.Parse.src_lit_eq", "PP.Parse.src_lit1_eq",
    "PP.Parse.src_stringEnd_eq", "PP.Parse.src_lineEnd_eq", "PP.Parse.src_wordStart_eq", "PP.Parse.src_wordEnd_eq",
    "PP.Parse.src_lineStart_eq",
]
THEOREMS = THEOREMS + LEAF_SRC_THEOREMS


def leaf_source_tie(ctx, pp):
    """regenerate Props/Gen/LeafSrc.lean from the live source; check the constructor invariants the theorems assume"""
    from .. import py2lean
    generated = {}
    name = "leaf parseImpl methods lie in the translatable subset (PyLite)"
    try:
        generated["PPProofs/Props/Gen/LeafSrc.lean"] = py2lean.translate_impls(
            py2lean.leaf_classes(pp), py2lean.LEAF_ATTRS, "PP.Gen.LeafSrc", "pyparsing/core.py",
            py2lean.leaf_calls(), py2lean.LEAF_IMPORTS)
        ctx.obligation(name, True, "translated: " + ", ".join(c.__name__ for c in py2lean.leaf_classes(pp)))
    except (py2lean.Untranslatable, OSError, TypeError, SyntaxError, IndexError, AttributeError) as ex:
        ctx.obligation(name, False, str(ex)[:300])
    # hypotheses of src_lit_eq / src_lit1_eq and the dispatch the model assumes, on live objects
    from pyparsing import core
    bad = []
    for m in ["ab", "abc", "a b", "\n\n", "éa", "xyzzy"]:
        e = pp.Literal(m)
        if not (type(e) is pp.Literal and e.match == m and e.matchLen == len(m) and e.firstMatchChar == m[:1]):
            bad.append(("Literal", m))
    for m in ["a", " ", "\n", "é"]:
        e = pp.Literal(m)
        if not (type(e) is core._SingleCharLiteral and e.match == m and e.firstMatchChar == m):
            bad.append(("_SingleCharLiteral", m))
    for cls, kind in [(pp.WordStart, "wordChars"), (pp.WordEnd, "wordChars")]:
        e = cls("ab")
        if set(getattr(e, kind)) != {"a", "b"}:
            bad.append((cls.__name__, kind))
    for cls in py2lean.leaf_classes(pp):
        if "parseImpl" not in cls.__dict__:
            bad.append((cls.__name__, "parseImpl inherited"))
    if type(pp.Literal("")) is not pp.Empty:
        bad.append(("Literal('')", "is not Empty"))
    ctx.obligation("constructor invariants assumed by src_lit_eq / src_lit1_eq / src_word*_eq hold on live objects",
                   not bad, str(bad)[:300])
    return generated

# default whitespace, no actions, no ignorables, no '-', no classes whose reading the reference does not implement
PEG_CFG = dict(actions=0.0, ws_variants=0.0, ignore=0.0, set_name=0.0, errorstop=0.0,
               leaf_kinds=[("Literal", 6), ("Word", 6), ("WordIB", 2), ("WordMax", 2), ("WordExact", 1), ("WordMin", 1),
                           ("WordSlow", 1), ("Keyword", 2), ("CaselessLiteral", 1), ("CaselessKeyword", 1), ("CharsNotIn", 2),
                           ("Char", 1), ("Empty", 1), ("NoMatch", 1), ("StringEnd", 2)],
               comp_kinds=[("+", 8), ("|", 6), ("^", 5), ("And3", 2), ("MatchFirst3", 2), ("Or3", 2), ("Opt", 4), ("OptD", 1),
                           ("ZeroOrMore", 4), ("OneOrMore", 4), ("ManyStop", 2), ("[]", 2), ("*", 1), ("~", 2), ("FollowedBy", 2),
                           ("Group", 4), ("Suppress", 3), ("Combine", 3), ("SkipTo", 3), ("DelimitedList", 3), ("Located", 1),
                           ("copy", 1), ("fwdref", 3)])

SMALL_LEAVES = [["Literal", "a"], ["Literal", "ab"], ["Word", "ab"], ["Word", "a", {"body": "b"}], ["Empty"], ["StringEnd"],
                ["CharsNotIn", "b "], ["Keyword", "a"]]
SMALL_UN = ["Opt", "ZeroOrMore", "OneOrMore", "~", "FollowedBy", "Group", "Suppress", "Combine"]
SMALL_BIN = ["+", "|", "^"]


def small_programs(depth2):
    """all grammars of <= 3 nodes over a tiny leaf set (+ a slice of 4-node ones when depth2)"""
    progs = []
    for i, l in enumerate(SMALL_LEAVES):
        progs.append(([["e1"] + l], "e1"))
    for l in SMALL_LEAVES:
        for u in SMALL_UN:
            progs.append(([["e1"] + l, ["e2", u, "e1"]], "e2"))
    for l1, l2 in itertools.product(SMALL_LEAVES, repeat=2):
        for b in SMALL_BIN:
            progs.append(([["e1"] + l1, ["e2"] + l2, ["e3", b, "e1", "e2"]], "e3"))
            if depth2:
                for u in SMALL_UN[:5]:
                    progs.append(([["e1"] + l1, ["e2"] + l2, ["e3", b, "e1", "e2"], ["e4", u, "e3"]], "e4"))
                    progs.append(([["e1"] + l1, ["e2"] + l2, ["e3", u, "e1"], ["e4", b, "e3", "e2"]], "e4"))
    return progs


def small_inputs(L):
    out = []
    for n in range(L + 1):
        for t in itertools.product("ab ", repeat=n):
            out.append("".join(t))
    return out


def ref_job(job):
    """worker: real parse_string vs the reference interpreter. returns (n, n_unsupported, [mismatches], n_ok)"""
    pp = common.import_pyparsing()
    try:
        b = gram.build(pp, job["prog"])
        root = gram.prepare(b, job["root"])
    except Exception:
        return 0, 0, [], 0
    if corr_parse.nullable_rep(pp, root):
        return 0, 0, [], 0
    pp.ParserElement.disable_memoization()
    try:
        ref = peg_ref.Ref(job["prog"], keyword_chars=pp.Keyword.DEFAULT_KEYWORD_CHARS, ws=pp.ParserElement.DEFAULT_WHITE_CHARS)
    except peg_ref.Unsupported:
        return 0, 1, [], 0
    n, uns, bad, oks = 0, 0, [], 0
    for s in job["inputs"]:
        try:
            want = ref.parse(job["root"], s)
        except (peg_ref.Unsupported, RecursionError):
            uns += 1
            continue
        try:
            def real():
                try:
                    return ("ok", json.loads(json.dumps(root.parse_string(s).as_list())))
                except pp.ParseException:
                    return ("fail",)
                except pp.ParseBaseException as ex:
                    return ("fatal", type(ex).__name__)
            got = common.with_alarm_retry(2.0, real)
        except common.CaseTimeout:
            got = ("hang",)
        except RecursionError:
            uns += 1
            continue
        n += 1
        oks += got[0] == "ok"
        if list(got) != json.loads(json.dumps(list(want))):
            sig = None
            try:
                # the registered Each finding: the outcome is the one of "a nullable operand may be consumed twice"
                twice = peg_ref.Ref(job["prog"], keyword_chars=pp.Keyword.DEFAULT_KEYWORD_CHARS,
                                    ws=pp.ParserElement.DEFAULT_WHITE_CHARS, each_twice=True).parse(job["root"], s)
                if list(got) == json.loads(json.dumps(list(twice))):
                    sig = "each_nullable_operand_twice"
            except (peg_ref.Unsupported, RecursionError):
                pass
            bad.append({"prog": job["prog"], "root": job["root"], "input": s, "expected": list(want), "actual": list(got),
                        "sig": sig})
    return n, uns, bad, oks


def run_ref(ctx, stream, jobs):
    res = common.pmap(ref_job, jobs)
    n, uns, oks = sum(r[0] for r in res), sum(r[1] for r in res), sum(r[3] for r in res)
    bad = [m for r in res for m in r[2]]
    ctx.count_cases(stream, n, distinct_keys=[json.dumps([j["prog"], s]) for j in jobs for s in j["inputs"]],
                    outcomes={"compared": n, "accepted": oks, "reference-unsupported": uns, "mismatch": len(bad)},
                    samples=[{"prog": jobs[0]["prog"], "root": jobs[0]["root"], "input": jobs[0]["inputs"][-1]}] if jobs else [])
    srt = sorted(bad, key=lambda m: (len(m["prog"]), len(m["input"])))
    for m in [m for m in srt if m.get("sig")][:1] + [m for m in srt if not m.get("sig")][:3]:
        ctx.fail_input("parse_string disagrees with the PEG reading", {k: m[k] for k in ("prog", "root", "input")},
                       m["expected"], m["actual"], theorem="C01 (reference interpreter harness/peg_ref.py)", signature=m.get("sig"),
                       how="harness.peg_ref.Ref(prog).parse(root, input) vs gram.build(...).parse_string(input)")
    return bad


def run(ctx):
    pp_ = common.import_pyparsing()
    generated = leaf_source_tie(ctx, pp_)
    ctx.proof_leg("PPProofs.Props.C01", THEOREMS, generated=generated,
                  extra_modules=("PPProofs.Props.C01Sem", "PPProofs.Props.LeafSrc"))
    ctx.rule.append("(1) exhaustive small scope: all grammars of <=3 nodes (thorough: + 4-node slice) over 8 leaves, 8 unary and "
                    "3 binary combinators x all strings of length <= L over {a,b,blank} (quick L=4, thorough L=6); (2) random "
                    "deep grammars with sharing (harness/gen.py, default whitespace, no actions) x inputs sampled from the "
                    "grammar + mutations + random; nullable repetition bodies filtered; non-trivial = distinct (program,input)")
    # ---- corpus: the SkipTo fail_on witness (fixed) ------------------------------------------------
    run_ref(ctx, "corpus", [dict(prog=[["x", "Literal", "x"], ["y", "Literal", "y"], ["k", "SkipTo", "x", {"fail_on": "y"}]],
                                 root="k", inputs=["aayx", "aax", "yx", "x"])])
    # ---- exhaustive small scope ----------------------------------------------------------------------
    thorough = ctx.tier == "thorough"
    sp = small_programs(thorough)
    si = small_inputs(6 if thorough else 4)
    jobs_small = [dict(prog=p, root=r, inputs=si, entries=[("parse", ()), ("scan", (100, True, False))], modes=[("none",)],
                       want_plain=True)
                  for p, r in sp]
    corr_parse.run_jobs(ctx, "model-vs-real:small-scope", jobs_small)
    run_ref(ctx, "reference:small-scope", [dict(prog=j["prog"], root=j["root"], inputs=si) for j in jobs_small])
    # ---- random deep grammars ------------------------------------------------------------------------
    jobs = []
    for i in range(ctx.budget(2500, 25000)):
        rng = random.Random(f"C01-{ctx.seed}-deep-{i}")
        prog, root, inputs = gen.gen_case(rng, gen.Cfg(**PEG_CFG), 6)
        jobs.append(dict(prog=prog, root=root, inputs=inputs, entries=[("parse", ()), ("parseAll", ()), ("scan", (100, True, False))],
                         modes=[("none",)], want_plain=True))
    corr_parse.run_jobs(ctx, "model-vs-real:deep", jobs)
    mult = 4 if (ctx.broken and not ctx.fail_inputs) else 1
    # ---- Forwards taking a non-skipping body's flag ---------------------------------------------------------
    fj = forward_flag_jobs(f"C01-{ctx.seed}", ctx.budget(400, 4000))
    corr_parse.run_jobs(ctx, "model-vs-real:forward-flags", [dict(j, entries=[("parse", ())], modes=[("none",)]) for j in fj])
    run_ref(ctx, "reference:forward-flags", fj)
    # ---- Each (outside the Lean model: reference only) ------------------------------------------------
    ej = []
    for i in range(ctx.budget(3000, 30000) * mult):
        prog, root, inputs = each_case(random.Random(f"C01-{ctx.seed}-each-{i}"))
        ej.append(dict(prog=prog, root=root, inputs=inputs))
    run_ref(ctx, "reference:each", ej)
    run_ref(ctx, "reference:deep", [dict(prog=j["prog"], root=j["root"], inputs=j["inputs"]) for j in jobs])
    if mult > 1:
        more = []
        for i in range(ctx.budget(2500, 25000) * mult):
            rng = random.Random(f"C01-{ctx.seed}-more-{i}")
            prog, root, inputs = gen.gen_case(rng, gen.Cfg(**PEG_CFG), 6)
            more.append(dict(prog=prog, root=root, inputs=inputs))
        run_ref(ctx, "reference:search", more)


def each_case(rng):
    """an Each over 2-4 operands drawn from tokens, optional / repeated tokens, sequences (also all-optional ones, chained
    with + so that streamline() flattens them), groups; inputs = permutations of the operands' texts with omissions and
    repetitions"""
    words = ["a", "b", "c", "d", "ee", "f", "gg", "h", "k", "m", "n", "p", "qq", "r", "t", "u"]   # never two equal operands
    rng.shuffle(words)
    prog, n = [], [0]

    def fresh(p="x"):
        n[0] += 1
        return f"{p}{n[0]}"

    def leaf(w):
        v = fresh("l")
        k = rng.random()
        if k < 0.6:
            prog.append([v, "Literal", w])
        elif k < 0.8:
            prog.append([v, "Keyword", w])
        else:
            prog.append([v, "Word", w])
        return v

    def operand():
        """-> (variable, list of texts it may consume, in order)"""
        k = rng.random()
        w = words.pop()
        l = leaf(w)
        if k < 0.25:
            return l, [w]
        if k < 0.40:
            v = fresh("o")
            prog.append([v, "Opt", l] + ([w.upper()] if rng.random() < 0.3 else []))
            return v, [w]
        if k < 0.50:
            v = fresh("z")
            prog.append([v, rng.choice(["ZeroOrMore", "OneOrMore"]), l])
            return v, [w]
        if k < 0.60:
            v = fresh("g")
            prog.append([v, rng.choice(["Group", "Suppress"]), l])
            return v, [w]
        # a sequence of 2-3 parts, each plain or optional, chained with '+' (nested And -> flattened by streamline)
        parts, texts = [], []
        m = rng.choice([2, 2, 3])
        all_opt = rng.random() < 0.5
        for j in range(m):
            w2 = w if j == 0 else words.pop()
            l2 = l if j == 0 else leaf(w2)
            if all_opt or rng.random() < 0.4:
                if not (j == m - 1 and not all_opt and rng.random() < 0.7):
                    o = fresh("o")
                    prog.append([o, "Opt", l2])
                    l2 = o
            parts.append(l2)
            texts.append(w2)
        if rng.random() < 0.5 and m == 3:
            inner = fresh("s")
            prog.append([inner, "+", parts[0], parts[1]])
            v = fresh("s")
            prog.append([v, "+", inner, parts[2]])
        elif m == 3:
            inner = fresh("s")
            prog.append([inner, "+", parts[1], parts[2]])
            v = fresh("s")
            prog.append([v, "+", parts[0], inner])
        else:
            v = fresh("s")
            prog.append([v, "+", parts[0], parts[1]])
        return v, texts

    k = rng.choice([2, 2, 3, 3, 4])
    ops = [operand() for _ in range(k)]
    if rng.random() < 0.5:
        root = fresh("E")
        prog.append([root, "Each", [v for v, _ in ops]])
    else:
        root = ops[0][0]
        for v, _ in ops[1:]:
            r2 = fresh("E")
            prog.append([r2, "&", root, v])
            root = r2
    if rng.random() < 0.3:
        t = fresh("t")
        prog.append([t, "Literal", ";"])
        r2 = fresh("r")
        prog.append([r2, "+", root, t])
        root, tail = r2, " ;"
    else:
        tail = ""
    inputs = []
    for _ in range(8):
        seq = []
        for v, texts in ops:
            reps = rng.choice([0, 1, 1, 1, 2])
            for _ in range(reps):
                seq.append([t for t in texts if rng.random() < 0.8])
        rng.shuffle(seq)
        if rng.random() < 0.3 and len(seq) >= 2:
            # interleave: split one occurrence around another
            a = seq.pop(0)
            seq.append(a[:1])
            seq.insert(0, a[1:])
        inputs.append(" ".join(t for part in seq for t in part) + tail)
    inputs.append(tail)
    return prog, root, inputs


def forward_flag_jobs(seed_tag, n):
    """a Forward assigned (<<=) an expression that does NOT skip whitespace - a leave_whitespace()d token, an
    alternation of such, a sequence led by one, CharsNotIn, a negative lookahead - and used afterwards as a later element
    of a sequence / inside Group / as an alternative: the Forward takes its body's flag, so blanks in front of it are
    not skipped (the whitespace rule applies to skipping elements only)"""
    jobs = []
    for i in range(n):
        r = random.Random(f"{seed_tag}-fwdflag-{i}")
        prog = [["w", "Word", "hi"], ["l", "Literal", "!"], ["t", "leave_whitespace", "l"], ["q", "Literal", "?"],
                ["t2", "leave_whitespace", "q"], ["cn", "CharsNotIn", "hi \n", {"exact": 1}], ["kw", "Keyword", "hi"]]
        k = r.choice(["tok", "mf", "or", "seq", "cn", "not"])
        if k == "tok":
            prog.append(["body", "copy", "t"])
        elif k == "mf":
            prog.append(["body", "MatchFirst", ["t", "t2"]])
        elif k == "or":
            prog.append(["body", "Or", ["t", "t2"]])
        elif k == "seq":
            prog.append(["body", "+", "t", "w"])
        elif k == "cn":
            prog.append(["body", "copy", "cn"])
        else:
            prog += [["nk", "~", "kw"], ["body", "+", "nk", "l"]]
        prog += [["F", "Forward"], ["_", "<<=", "F", "body"]]
        use = r.choice(["seq", "group", "alt", "opt", "rep"])
        if use == "seq":
            prog.append(["root", "+", "w", "F"])
        elif use == "group":
            prog += [["s", "+", "w", "F"], ["g", "Group", "s"], ["root", "|", "g", "w"]]
        elif use == "alt":
            prog += [["s", "+", "w", "F"], ["root", "MatchFirst", ["s", "w"]]]
        elif use == "opt":
            prog += [["o", "Opt", "F"], ["root", "+", "w", "o"]]
        else:
            prog += [["z", "ZeroOrMore", "F"], ["root", "+", "w", "z"]]
        jobs.append(dict(prog=prog, root="root", inputs=["hi!", "hi !", "hi ?", " hi?", "hi\n!", "hi !hi", "hi!hi", "hi ! hi", "hi", "hi?!"]))
    return jobs


def replay(data):
    if data.get("replay_kind") == "failing-input":
        c = data["case"]
        return bool(ref_job(dict(prog=c["prog"], root=c["root"], inputs=[c["input"]]))[2])
    ctx = common.Ctx("C01", "quick", data.get("seed", 0))
    run(ctx)
    return bool(ctx.broken or ctx.fail_inputs)
