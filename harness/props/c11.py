"""C11 — copies, pickles and concatenations of ParseResults preserve both views.

proof:           lean/PPProofs/Props/C11.lean (value level, on the C10 model): copy()/copy-module/pickle protocol give
                 back the same state; `+`/`+=`/sum() = merge of list + multimap; associativity and empty identity under
                 the exact side condition; the point where associativity fails (witness)
correspondence:  compiled model vs real class: (a) views of every kind of copy of a real parse result vs the model's views
                 of the extracted state; (b) (a+b)+c built with `+` vs the model's `iadd` chain, after each step
search (oracle): the statement executed on the real class: preserve (as_list/as_dict/dump/keys/len), mutate-then-compare
                 frames (own tokens / own names; nested groups for the deep kinds), concatenation laws against the
                 list+multimap oracle (prlib.Spec), from_dict round trip
"""
from __future__ import annotations

import copy as copymod
import json
import pickle

from .. import common
from .. import prlib
from ..sexp import Sym, dumps, line as sx
from . import c10

META = dict(
    text="Lean theorems (PPProofs/Props/C11.lean), value level, all value types / all states with PRInv: copy() and the "
         "__getnewargs__/__getstate__/__setstate__ protocol used by copy.copy, copy.deepcopy and pickle return the same "
         "tokens, name table, list-all names and _name (copy_preserves, pickle_roundtrip, copy_same_answers: every C10 "
         "operation answers a copy like the original); a+b is the merge of list and multimap (concat_is_merge), "
         "associative (concat_assoc) with the empty result as right and left "
         "identity (concat_empty_right/left), sum() is the left fold (sum_is_fold) — for all well-formed operands, no "
         "side condition (concat_assoc_former_witness = regression witness of the fixed finding "
         "concat_assoc_falsy_listall, pyparsing 448d339). Aliasing, heap model (PPProofs/Props/C11Heap.lean; list cells, dict cells, "
         "occurrence-list cells, objects with identity): frame_step/frame_all (any sequence of own-token/own-name "
         "mutations of an object leaves the view of every object with separate list and dict cell unchanged, although "
         "occurrence lists are shared and rewritten in place), copy_frame and copyModule_frame (copy() and the "
         "copy-module/pickle protocol: the copy shows the original's view; mutating either side never changes the other) "
         "— full strength on the model for all heaps/objects/mutation sequences. NESTED groups at every depth "
         "(PPProofs/Props/C11Deep.lean, models deepcopyN and deepObjN/copyModuleDeep in PPModel/Mod/PRHeapDeep.lean), for "
         "all heaps, objects, depths and mutation sequences, under the hypothesis that the (token / token+name) structure "
         "of the object is allocated and of finite depth: ParseResults.deepcopy(): deepcopy_tokens_fresh (every group "
         "reachable through the copy's token lists is a new object with new list and dict cell, not in the original's "
         "token tree — deepcopy_tokens_fresh_full: not reachable from the original by any route —, and as_list() of "
         "the copy = as_list() of the original to every depth; deepcopy_views: BOTH views, nested, are the original's), deepcopy_frame_tokens / deepcopy_frame_tokens_many (own "
         "mutations of any groups of the copy's token tree never change the original's as_list(), and vice versa; deepcopy_frame_views: nor the view of any "
         "well-formed object of the original heap, and vice versa), "
         "deepcopy_names_shared + deepcopy_named_alias_any_depth (registered finding deepcopy_named_group_aliased, "
         "general form: at every depth the copy of a group keeps the very occurrence lists of the original, so every "
         "named nested value of the copy IS the original's object; a concrete heap for every depth). copy.deepcopy / "
         "pickle of nested results (memoised graph copy through __getnewargs__/__getstate__/__setstate__): "
         "copyModule_deep_fresh (every object reachable from the copy by any route, names included, is new with new "
         "list cell, dict cell and occurrence lists; nothing of the original heap is written) and "
         "copyModule_deep_frame (own mutations on either side never change the other side's view), "
         "copyModule_deep_as_list and copyModule_deep_views (as_list() resp. BOTH views — tokens, names in order with all "
         "occurrences and positions, list-all names, nested results expanded — of the copy are those of the original, to "
         "every depth). PARTIAL: the view theorems need the whole structure reachable from the object (tokens and "
         "names) to be allocated and acyclic (hypothesis FD); container tokens (list/tuple/dict holding "
         "groups, results.py:598-605) are proved for deepcopy() only, in a separate model (deepcopyC, "
         "PPProofs/Props/C11DeepC.lean: deepcopyC_tokens_fresh, deepcopyC_frame_tokens — the groups inside a rebuilt "
         "container are new at every depth, the expanded nested list is preserved, own mutations never cross), not for "
         "copy.deepcopy/pickle and not for containers nested in containers (shared by the code; opaque in the model); "
         "the container model is tied to the class by one sharing pattern (stream container-sharing) and the "
         "frames:container-tokens oracle. "
         "from_dict: tree model of from_dict/as_dict (PPModel/Mod/PRFromDict.lean), "
         "from_dict_roundtrip proved for ALL dicts whose nested dicts are non-empty, at every depth (full strength on "
         "the tree model; its one assumption about `+=` in the loop is proved on the full model as from_dict_item_step; tied to the class by a "
         "per-run structural correspondence); from_dict_empty_inner_dict shows why `non-empty` is needed.",
    note="Trusted: Lean kernel; axioms propext/Classical.choice/Quot.sound; the value model of results.py (C10) and the "
         "transcription of copy()/__getstate__/__setstate__/__add__/__radd__; the heap model (PRHeap.lean) is tied to the "
         "class only by a sharing table (3 kinds of copy x 12 probes), the deep models (PRHeapDeep.lean: deepcopyN, "
         "deepObjN) by the streams deep-sharing (is-identity and append probes on chains of nested groups, depths 1-6, "
         "deepcopy()/copy.deepcopy/pickle) and tree-sharing (random nested shapes with named and unnamed groups: for every "
         "access path, is the copy's object the original's, and which paths of the copy lead to the same object) and by the frame oracle; the CPython copy/pickle protocol dispatch "
         "(copy._reconstruct, memo discipline, order args -> __new__ -> memo -> state -> __setstate__) is transcribed by "
         "hand into deepObjN, not verified; deepcopyN stores the rebuilt token list once after the loop; the statement-by-statement "
         "loop (deepcopyLoop, store after each recursive call) is proved equal to it (deepcopyLoop_eq); fuel-bounded recursion, "
         "theorems hold for every fuel >= depth; "
         "the from_dict tree model is a separate small model (not derived from the PR model in Lean).",
    technique="Lean 4 proof on the value model + differential copies/concatenations + mutate-then-compare oracle",
    design="§5 C11",
)

HEAP_THEOREMS = [
    "PP.PRHeap.frame_step",
    "PP.PRHeap.frame_all",
    "PP.PRHeap.copy_frame",
    "PP.PRHeap.copyModule_frame",
    "PP.PRHeap.fixOccs_fst",
    "PP.PRHeap.deepcopy_named_group_aliased_witness",
]

FROMDICT_THEOREMS = [
    "PP.FromDict.from_dict_roundtrip",
    "PP.FromDict.rt_conv",
    "PP.FromDict.rt_body",
    "PP.FromDict.from_dict_empty_inner_dict",
]

THEOREMS = [
    "PP.PR.copy_preserves",
    "PP.PR.pickle_roundtrip",
    "PP.PR.copy_same_answers",
    "PP.PR.concat_is_merge",
    "PP.PR.concat_assoc",
    "PP.PR.concat_empty_right",
    "PP.PR.concat_empty_left",
    "PP.PR.sum_is_fold",
    "PP.PR.concat_assoc_former_witness",
    "PP.PR.from_dict_item_step",
    # deepcopy() of nested groups at every depth (PPProofs/Props/C11Deep.lean, heap model PRHeapDeep.lean)
    "PP.PRHeap.deepcopyLoop_eq",
    "PP.PRHeap.deepcopy_tokens_fresh",
    "PP.PRHeap.deepcopy_frame_tokens",
    "PP.PRHeap.deepcopy_frame_tokens_many",
    "PP.PRHeap.deepcopy_frame_views",
    "PP.PRHeap.deepcopy_names_shared",
    "PP.PRHeap.deepcopy_named_alias_any_depth",
    "PP.PRHeap.deepcopy_tokens_fresh_full",
    "PP.PRHeap.deepcopy_views",
    "PP.PRHeap.deepcopyN_corr",
    "PP.PRHeap.deepcopyN_ext",
    # copy.deepcopy / pickle of nested results (memoised model deepObjN / copyModuleDeep)
    "PP.PRHeap.copyModule_deep_fresh",
    "PP.PRHeap.copyModule_deep_frame",
    "PP.PRHeap.copyModule_deep_as_list",
    "PP.PRHeap.copyModule_deep_views",
    "PP.PRHeap.deepObjN_drel",
    "PP.PRHeap.deepObjN_rel",
    "PP.PRHeap.deepObjN_spec",
    # deepcopy() with container tokens (tuple/list/dict of groups), PPProofs/Props/C11DeepC.lean
    "PP.PRHeap.deepcopyC_tokens_fresh",
    "PP.PRHeap.deepcopyC_frame_tokens",
    "PP.PRHeap.deepcopyC_corr",
]

KINDS = ["copy", "copy.copy", "deepcopy", "copy.deepcopy", "pickle"]
DEEP = {"deepcopy", "copy.deepcopy", "pickle"}
SIG_ASSOC = "concat_assoc_falsy_listall"
SIG_DEEP = "deepcopy_named_group_aliased"


def make_copy(r, kind):
    if kind == "copy":
        return r.copy()
    if kind == "copy.copy":
        return copymod.copy(r)
    if kind == "deepcopy":
        return r.deepcopy()
    if kind == "copy.deepcopy":
        return copymod.deepcopy(r)
    if kind == "pickle":
        return pickle.loads(pickle.dumps(r))
    raise ValueError(kind)


def _plain(x):
    return json.dumps(x, sort_keys=False, default=lambda o: f"<{type(o).__name__}>")


def views(r):
    """the observables C11 names: as_list, as_dict, dump, keys, len"""
    return [_plain(r.as_list()), _plain(r.as_dict()), r.dump(), [str(k) for k in r.keys()], len(r)]


def snapshot(pp, r):
    return dumps([prlib.canon(pp, r), views(r)])


# ---- own mutations ------------------------------------------------------------------------------------
MUT = ["setint", "setslice", "setname", "delint", "delslice", "delname", "pop", "popint", "popname", "insert",
       "append", "extendlist", "extendpr", "iadd", "clear"]


def gen_mutation(rng, pp, r, attr_ok):
    for _ in range(30):
        op = c10.gen_op(rng, pp, r, attr_ok)
        if op[0] in MUT:
            return op
    return ["append", {"s": "zz"}]


def nested_paths(pp, r, via_names, depth=0):
    """access paths to nested ParseResults of r: ('tok', i) / ('name', k) steps"""
    PR = pp.ParseResults
    out = []
    if depth > 2:
        return out
    for i, t in enumerate(r):
        if isinstance(t, PR):
            out.append([["tok", i]])
            out += [[["tok", i]] + p for p in nested_paths(pp, t, via_names, depth + 1)]
        elif isinstance(t, list):
            out.append([["tok", i]])          # a Group(aslist=True): plain list, mutated with list.append
    if via_names:
        for k in r.keys():
            v = r[k]
            if isinstance(v, PR) and r[k] is v:      # an ordinary name bound to a nested result
                out.append([["name", str(k)]])
    return out


def has_named_group(pp, r, depth=0):
    """region of the registered finding deepcopy_named_group_aliased: somewhere in r a nested result that sits in
    the token list is also the value of a name (then deepcopy() leaves that name pointing at the original)"""
    PR = pp.ParseResults
    if depth > 4:
        return False
    toks = [t for t in r if isinstance(t, PR)]
    for k in r.keys():
        occs = r.__getstate__()[1][0].get(k, [])
        for o in occs:
            if isinstance(o[0], (PR, list)):      # a mutable value under a name is not deep-copied by deepcopy()
                return True
    return any(has_named_group(pp, t, depth + 1) for t in toks)


def follow(r, path):
    for kind, x in path:
        r = r[x]
    return r


def frame_case(pp, case):
    """returns None or a description; case = {start, kind, steps:[{who, path, op}]}"""
    try:
        r = prlib.build_start(pp, case["start"])
    except prlib.ERRS:
        return None
    c = make_copy(r, case["kind"])
    for n, st in enumerate(case["steps"]):
        target, other, oname = (c, r, "original") if st["who"] == "copy" else (r, c, "copy")
        before = snapshot(pp, other)
        try:
            obj = follow(target, st["path"])
            if isinstance(obj, pp.ParseResults):
                prlib.apply_real(pp, obj, st["op"])
            elif isinstance(obj, list):
                obj.append("zz")
        except prlib.ERRS:
            pass
        after = snapshot(pp, other)
        if before != after:
            return {"step": n, "mutated": st["who"], "changed": oname, "before": before, "after": after}
    return None


def gen_frame_case(rng, pp, attr_ok):
    start = c10.gen_start(rng, pp)
    try:
        r = prlib.build_start(pp, start)
    except prlib.ERRS:
        return None
    kind = rng.choice(KINDS)
    c = make_copy(r, kind)
    named_group = has_named_group(pp, r)
    steps = []
    for _ in range(rng.randint(1, 6)):
        who = "copy" if rng.random() < 0.7 else "original"
        target = c if who == "copy" else r
        path = []
        if kind in DEEP and rng.random() < 0.5 and not (kind == "deepcopy" and named_group):
            # nested groups, reached through tokens and through names (for deepcopy() only when no nested result
            # is the value of a name: region of the registered finding)
            ps = nested_paths(pp, target, via_names=True)
            if ps:
                path = rng.choice(ps)
        try:
            obj = follow(target, path)
            if isinstance(obj, list):
                op = ["append", {"s": "zz"}]
                obj.append("zz")
            else:
                op = gen_mutation(rng, pp, obj, attr_ok)
                prlib.apply_real(pp, obj, op)
        except prlib.ERRS:
            continue
        steps.append({"who": who, "path": path, "op": op})
    return {"start": start, "kind": kind, "steps": steps}


def shrink_frame(pp, case):
    bad = frame_case(pp, case)
    if bad is None:
        return case
    cur = dict(case, steps=case["steps"][: bad["step"] + 1])
    i = len(cur["steps"]) - 2
    while i >= 0:
        cand = dict(cur, steps=cur["steps"][:i] + cur["steps"][i + 1:])
        if frame_case(pp, cand) is not None:
            cur = cand
        i -= 1
    return cur


DEEP_WITNESS = {"start": {"parse": ["group", "a 0 b"]}, "kind": "deepcopy",
                "steps": [{"who": "copy", "path": [["name", "g"]], "op": ["append", {"s": "z"}]}]}
F1_WITNESS = {"start": {"parse": ["plain", "a 0 b"]}, "kind": "copy.copy",
              "steps": [{"who": "copy", "path": [], "op": ["append", {"s": "z"}]}]}
FRAME_FIXED = [
    F1_WITNESS,
    {"start": {"parse": ["names", "a 0"]}, "kind": "copy",
     "steps": [{"who": "copy", "path": [], "op": ["setname", "x", {"s": "new"}]},
               {"who": "copy", "path": [], "op": ["delint", 0]}, {"who": "original", "path": [], "op": ["clear"]}]},
    {"start": {"parse": ["group", "a 0 b"]}, "kind": "copy.deepcopy",
     "steps": [{"who": "copy", "path": [["name", "g"]], "op": ["append", {"s": "z"}]},
               {"who": "copy", "path": [["tok", 0]], "op": ["setname", "q", {"s": "v"}]}]},
    {"start": {"parse": ["group", "a 0 b"]}, "kind": "pickle",
     "steps": [{"who": "copy", "path": [["name", "g"]], "op": ["delint", 0]}]},
    {"start": {"parse": ["nested", "a 0 1 b"]}, "kind": "deepcopy",
     "steps": [{"who": "copy", "path": [["tok", 0], ["tok", 1]], "op": ["append", {"s": "z"}]}]},
    {"start": {"ctor": [{"list": [{"l": [{"s": "a"}]}, {"s": "b"}]}, None, True, True]}, "kind": "deepcopy",
     "steps": [{"who": "copy", "path": [["tok", 0]], "op": ["append", {"s": "zz"}]}]},
    {"start": {"parse": ["names", "a 0"]}, "kind": "copy.copy",
     "steps": [{"who": "copy", "path": [], "op": ["setname", "x", {"s": "new"}]},
               {"who": "copy", "path": [], "op": ["delname", "y"]}]},
    # merging names the source already has into a copy (+= / extend): the source keeps its own values
    # (copy() shares the occurrence lists; __setitem__ must not append to them in place — seeded change C10-1)
    {"start": {"parse": ["names", "a 0"]}, "kind": "copy",
     "steps": [{"who": "copy", "path": [], "op": ["iadd", {"parse": ["names", "ab 10"]}]},
               {"who": "copy", "path": [], "op": ["extendpr", {"parse": ["dupname", "a 0 b 1"]}]}]},
    {"start": {"parse": ["listall", "a 0 b"]}, "kind": "copy.copy",
     "steps": [{"who": "copy", "path": [], "op": ["iadd", {"parse": ["listall", "b 11 ab"]}]},
               {"who": "original", "path": [], "op": ["extendpr", {"parse": ["mixed", "a 0 b"]}]}]},
    {"start": {"parse": ["recs", "a 0 b 1"]}, "kind": "deepcopy",
     "steps": [{"who": "copy", "path": [], "op": ["iadd", {"parse": ["recs", "a 0"]}]}]},
]

# operand triples that share names (a + b, sum(), += on a copy must leave every operand as it was)
CONCAT_FIXED = [
    {"objs": [{"parse": ["names", "a 0"]}, {"parse": ["names", "ab 10"]}, {"parse": ["dupname", "a 0 b 1"]}]},
    {"objs": [{"parse": ["listall", "a 0 b"]}, {"parse": ["listall", "b 11 ab"]}, {"parse": ["mixed", "a 0 b"]}]},
    {"objs": [{"parse": ["recs", "a 0"]}, {"parse": ["recs", "a 0 b 1"]}, {"parse": ["recs", "a 0"]}]},
]


# ---- concatenation --------------------------------------------------------------------------------------
def in_region(pp, a, b):
    return prlib.other_in_shortcut_region(pp, a, b)


def concat_check(pp, case, allow_region=False):
    """case = {objs: [start, start, start]}; returns None or (law, expected, actual)"""
    PR = pp.ParseResults
    try:
        a, b, c = (prlib.build_start(pp, s) for s in case["objs"])
    except prlib.ERRS:
        return None
    snaps = [snapshot(pp, x) for x in (a, b, c)]
    sa, sb, sc = (prlib.Spec.of_start(pp, s) for s in case["objs"])
    ab = a + b
    if [snapshot(pp, x) for x in (a, b, c)] != snaps:
        return ("a + b changed an operand", snaps[:2], [snapshot(pp, x) for x in (a, b)])
    t0 = a.copy()
    t0 += b
    t0.extend(c)
    if [snapshot(pp, x) for x in (a, b, c)] != snaps:
        return ("t = a.copy(); t += b; t.extend(c) changed a, b or c", snaps, [snapshot(pp, x) for x in (a, b, c)])
    exp = prlib.Spec(sa.toks, sa.names, sa.la)
    exp.merge(sb)
    got = prlib.views_real(pp, ab)
    if dumps(got) != dumps(exp.views()):
        return ("a+b is not the merge of list and multimap", dumps(exp.views()), dumps(got))
    if ab.as_list() != a.as_list() + b.as_list():
        return ("(a+b).as_list() != a.as_list()+b.as_list()", _plain(a.as_list() + b.as_list()), _plain(ab.as_list()))
    l, r_ = (a + b) + c, a + (b + c)
    if snapshot(pp, l) != snapshot(pp, r_):
        return ("(a+b)+c != a+(b+c)", snapshot(pp, r_), snapshot(pp, l))
    t = a.copy()
    t += b
    if snapshot(pp, t) != snapshot(pp, ab):
        return ("a.copy() += b differs from a+b", snapshot(pp, ab), snapshot(pp, t))
    s3 = sum([a, b, c])
    if snapshot(pp, s3) != snapshot(pp, l):
        return ("sum([a,b,c]) != (a+b)+c", snapshot(pp, l), snapshot(pp, s3))
    e = PR([])
    if snapshot(pp, a + e) != snapshot(pp, a.copy()):
        return ("a + empty != a", snapshot(pp, a.copy()), snapshot(pp, a + e))
    if snapshot(pp, e + a) != snapshot(pp, a.copy()):
        return ("empty + a != a", snapshot(pp, a.copy()), snapshot(pp, e + a))
    if [snapshot(pp, x) for x in (a, b, c)] != snaps:
        return ("+ / sum changed an operand", snaps, [snapshot(pp, x) for x in (a, b, c)])
    # the results of +, sum() and 0 + a are new objects: their own tokens/names can be changed freely
    for what, obj in (("sum([a])", sum([a])), ("a + b", a + b), ("a + empty", a + PR([]))):
        obj.append("zz")
        obj["zz"] = "v"
        if [snapshot(pp, x) for x in (a, b, c)] != snaps:
            return (f"mutating the result of {what} changed an operand", snaps, [snapshot(pp, x) for x in (a, b, c)])
    return None


ASSOC_WITNESS = {"objs": [{"ctor": [{"list": [{"s": "b"}]}, "x", False, True]},
                          {"ctor": [{"list": []}, "x", True, False]},
                          {"ctor": [{"list": [{"s": "c"}]}, "x", False, True]}]}


def concat_trace(pp, case):
    """(model line, impl trace): (a+b)+c built with `+`, observed after each step, vs the model's iadd chain"""
    a, b, c = (prlib.build_start(pp, s) for s in case["objs"])
    st = lambda x: prlib.state_sexp(prlib.extract_state(pp, x))
    line = sx(Sym("prhist"), st(a), [[Sym("iadd"), st(b)], [Sym("iadd"), st(c)]])
    ab = a + b
    abc = ab + c
    trace = [[Sym("start")] + prlib.views_real(pp, a.copy()), [Sym("None")] + prlib.views_real(pp, ab),
             [Sym("None")] + prlib.views_real(pp, abc)]
    return line, dumps(trace)


# ---- from_dict ---------------------------------------------------------------------------------------------
def gen_scalar(rng):
    return rng.choice(["a", "", "x y", 0, 1, -3, 2.5, None, True, False, "é", b"ab", b"", (1, 2) if False else "t"])


def gen_list(rng, depth=0):
    n = rng.randint(0, 3)
    return [gen_list(rng, depth + 1) if depth < 2 and rng.random() < 0.2 else gen_scalar(rng) for _ in range(n)]


def gen_dict(rng, depth=0):
    d = {}
    for k in rng.sample(["a", "b", "c", "k1", "name", "x"], rng.randint(1, 4)):
        c = rng.random()
        if c < 0.25 and depth < 3:
            d[k] = gen_dict(rng, depth + 1)
        elif c < 0.55:
            d[k] = gen_list(rng)
        else:
            d[k] = gen_scalar(rng)
    return d


def j_sexp(pp, v):
    """argument of from_dict in the driver's language"""
    if isinstance(v, dict):
        return [Sym("d")] + [[str(k), j_sexp(pp, x)] for k, x in v.items()]
    if isinstance(v, list):
        return [Sym("l")] + [j_sexp(pp, x) for x in v]
    return [Sym("atom"), prlib.canon(pp, v)]


def j_canon(pp, v):
    """as_dict() output, canonical"""
    if isinstance(v, dict):
        return [Sym("dct")] + [[str(k), j_canon(pp, x)] for k, x in v.items()]
    if isinstance(v, list):
        return [Sym("l")] + [j_canon(pp, x) for x in v]
    return prlib.canon(pp, v)


def from_dict_impl(pp, d):
    """(structure of from_dict(d), as_dict()) — only the second is an observable of the property"""
    r = pp.ParseResults.from_dict(d)
    return dumps(prlib.canon(pp, r)), dumps(j_canon(pp, r.as_dict()))


def from_dict_check(pp, d):
    try:
        got = pp.ParseResults.from_dict(d).as_dict()
    except Exception as e:  # noqa
        return f"raised {type(e).__name__}"
    return None if _plain(got) == _plain(d) and got == d else _plain(got)


# ---- sharing table: heap model (PPModel/Mod/PRHeap.lean `sharing`) vs the real class ------------------------
SHARE_KINDS = ["copy", "copy.copy", "deepcopy"]
SHARE_PROBES = ["own-append", "own-setname", "own-deltok", "own-insert", "own-delname", "own-clear", "orig-append",
                "orig-setname", "nested-via-token", "nested-via-name", "own-iadd-shared-name", "orig-iadd-shared-name"]


def _named(pp, name, value):
    """a result without tokens that binds `name` to `value`"""
    r = pp.ParseResults([])
    r[name] = value
    return r


def sharing_real(pp, kind, probe):
    """on the real class: outer result [<inner group>, 'b'] with g -> <inner>, x -> 'b'; does the probe, applied after
    copying, change what the other side shows?"""
    r = prlib.parse_start(pp, "group", "a 0 b")
    c = make_copy(r, kind)
    watch, snap = (c, snapshot(pp, c)) if probe.startswith("orig-") else (r, snapshot(pp, r))
    if probe == "own-append":
        c.append("z")
    elif probe == "own-setname":
        c["x"] = "new"
    elif probe == "own-deltok":
        del c[0]
    elif probe == "own-insert":
        c.insert(0, "z")
    elif probe == "own-delname":
        del c["g"]
    elif probe == "own-clear":
        c.clear()
    elif probe == "orig-append":
        r.append("z")
    elif probe == "orig-setname":
        r["x"] = "new"
    elif probe == "own-iadd-shared-name":
        c += pp.ParseResults(["new"], "x", asList=False) + pp.ParseResults([], "g") + _named(pp, "g", "new")
    elif probe == "orig-iadd-shared-name":
        r += pp.ParseResults(["new"], "x", asList=False) + _named(pp, "g", "new")
    elif probe == "nested-via-token":
        c[0].append("z")
    elif probe == "nested-via-name":
        c["g"].append("z")
    return snapshot(pp, watch) != snap


def deep_share_real(pp, kind, d):
    """the sharing pattern of a deep copy (kind: deepcopy / copy.deepcopy / pickle) of d+1 groups nested in each other,
    the innermost named `g` in its parent (the shape of PRHeapDeep.lean `chainHeap d`), by `is`-identity probes and two
    append probes; last entry: the copy's as_list() is the original's; see `deepShareOf`"""
    expr = pp.Group(pp.Word("a"))("g")
    for _ in range(d - 1):
        expr = pp.Group(expr)

    def chain(x):
        out = [x]
        for _ in range(d):
            out.append(out[-1][0])
        return out

    r = expr.parse_string("a")
    c = make_copy(r, kind)
    po, pc = chain(r), chain(c)
    gv = pc[d - 1]["g"]
    out = [a is b for a, b in zip(po, pc)] + [gv is po[-1], gv is pc[-1]]
    same_list = _plain(c.as_list()) == _plain(r.as_list())
    r = expr.parse_string("a")
    before = _plain(r.as_list())
    chain(make_copy(r, kind))[-1].append("z")
    out.append(_plain(r.as_list()) != before)
    r = expr.parse_string("a")
    before = _plain(r.as_list())
    chain(make_copy(r, kind))[d - 1]["g"].append("z")
    out.append(_plain(r.as_list()) != before)
    out.append(same_list)
    return out


def gen_shape(rng, depth=0, name=""):
    """a group: ["g", name-in-parent, kids]; kids are strings or groups; names unique per parent"""
    kids, pool = [], ["a", "b", "c", "d"]
    rng.shuffle(pool)
    for _ in range(rng.randint(1, 3)):
        if depth < 3 and rng.random() < 0.55:
            kids.append(gen_shape(rng, depth + 1, pool.pop() if rng.random() < 0.6 else ""))
        else:
            kids.append(rng.choice(["x", "y", "0"]))
    return ["g", name, kids]


def shape_sexp(t):
    return t if isinstance(t, str) else [Sym("g"), t[1]] + [shape_sexp(k) for k in t[2]]


def build_shape(pp, t):
    kids = [k if isinstance(k, str) else build_shape(pp, k) for k in t[2]]
    r = pp.ParseResults(kids)
    for k, obj in zip(t[2], kids):
        if not isinstance(k, str) and k[1]:
            r[k[1]] = obj
    return r


def shape_paths(pp, r, depth=0):
    """the nested groups of r by access path, depth first, token steps before name steps (as PRHeapDeep.lean `paths`)"""
    out = [r]
    if depth >= 12:
        return out
    for t in r:
        if isinstance(t, pp.ParseResults):
            out += shape_paths(pp, t, depth + 1)
    for k in r.keys():
        v = r[k]
        if isinstance(v, pp.ParseResults):
            out += shape_paths(pp, v, depth + 1)
    return out


def tree_share_real(pp, kind, shape):
    r = build_shape(pp, shape)
    c = make_copy(r, kind)
    po, pc = shape_paths(pp, r), shape_paths(pp, c)
    if len(po) != len(pc):
        return "paths differ"
    first = [next(j for j, y in enumerate(pc) if y is x) for x in pc]
    return dumps([[a is b for a, b in zip(po, pc)], first])


def cont_share_real(pp):
    """r = [(<['a']>, 'x', <['b']>), <['a']>] (a tuple token holding two groups, the first group again as a token);
    c = r.deepcopy(); see PRHeapDeepC.lean `contShare`"""
    PR = pp.ParseResults
    g0, g1 = PR(["a"]), PR(["b"])
    r = PR([(g0, "x", g1), g0])
    c = r.deepcopy()
    t = c[0]
    out = [t[0] is g0, t[2] is g1, c[1] is g0, c[1] is t[0]]
    same = cnorm(pp, c) == cnorm(pp, r)
    before = cnorm(pp, r)
    t[0].append("z")
    out.append(cnorm(pp, r) != before)
    out.append(same)
    return out


# ---- nested groups inside container tokens (a parse action may return tuples / lists / dicts of groups) -------------
def cnorm(pp, x):
    PR = pp.ParseResults
    if isinstance(x, PR):
        return ["PR", [cnorm(pp, v) for v in x], sorted([str(k), cnorm(pp, x[k])] for k in x.keys())]
    if isinstance(x, tuple):
        return ["T"] + [cnorm(pp, v) for v in x]
    if isinstance(x, list):
        return ["L"] + [cnorm(pp, v) for v in x]
    if isinstance(x, dict):
        return ["D"] + sorted([str(k), cnorm(pp, v)] for k, v in x.items())
    return repr(x)


def container_build(pp, case):
    PR = pp.ParseResults
    groups = []
    for gd in case["groups"]:
        g = PR(list(gd["toks"]))
        for k, v in gd["names"]:
            g[k] = v
        groups.append(g)
    ct = case["container"]
    cont = tuple(groups) if ct == "tuple" else list(groups) if ct == "list" else {f"k{i}": g for i, g in enumerate(groups)}
    toks = list(case["before"]) + [cont] + list(case["after"])
    r = PR(toks)
    for k, v in case["top_names"]:
        r[k] = v
    return r, len(case["before"])


def container_groups(x):
    return list(x.values()) if isinstance(x, dict) else list(x)


def container_case(pp, case):
    """None or a description: the copy has the original's views, and mutating a group inside the container token of the
    copy (original) leaves the original (copy) unchanged"""
    r, pos = container_build(pp, case)
    c = make_copy(r, case["kind"])
    if cnorm(pp, c) != cnorm(pp, r):
        return {"what": "copy differs from original", "original": cnorm(pp, r), "copy": cnorm(pp, c)}
    target, other, oname = (c, r, "original") if case["who"] == "copy" else (r, c, "copy")
    before = cnorm(pp, other)
    g = container_groups(target[pos])[case["gi"]]
    op = case["op"]
    if op == "append":
        g.append("zz")
    elif op == "setitem":
        g[0] = "CH"
    elif op == "setname":
        g["nn"] = "vv"
    elif op == "del":
        del g[0]
    elif op == "clear":
        g.clear()
    after = cnorm(pp, other)
    if before != after:
        return {"what": f"mutating a group inside a {case['container']} token of the {case['who']} changed the {oname}",
                "before": before, "after": after}
    return None


def gen_container_case(rng):
    ng = rng.randint(1, 2)
    return {"container": rng.choice(["tuple", "list", "dict"]),
            "groups": [{"toks": [rng.choice(["a", "b", "0"]) for _ in range(rng.randint(1, 3))],
                        "names": [["n", rng.choice(["v", "w"])]] if rng.random() < 0.5 else []} for _ in range(ng)],
            "before": ["x"] * rng.randint(0, 2), "after": ["y"] * rng.randint(0, 1),
            "top_names": [["t", "s"]] if rng.random() < 0.5 else [],
            "kind": rng.choice(sorted(DEEP)), "who": rng.choice(["copy", "copy", "original"]), "gi": rng.randrange(ng),
            "op": rng.choice(["append", "setitem", "setname", "del", "clear"])}


def run(ctx):
    pp = common.import_pyparsing()
    PR = pp.ParseResults
    attr_ok = lambda nm: not hasattr(PR, nm)
    proof_ok = ctx.proof_leg("PPProofs.Props.C11", THEOREMS + HEAP_THEOREMS + FROMDICT_THEOREMS,
                              extra_modules=("PPProofs.Props.C11Heap", "PPProofs.Props.C11FromDict", "PPProofs.Props.C11Deep", "PPProofs.Props.C11DeepC"))
    ctx.rule.append(
        "start objects as in C10 (real parse results of 16 grammars incl. nested groups, list-all names, int tokens; "
        "constructor calls); kinds copy()/copy.copy/deepcopy()/copy.deepcopy/pickle; frames: 1..6 own mutations (the 15 "
        "mutating C10 operations) of copy or original, for the deep kinds also of nested groups reached through tokens "
        "and names; concatenation triples; from_dict on random nested non-empty dicts of scalars and (nested) lists; "
        f"generators stay out of the region of the registered finding {SIG_DEEP} only; the witness of the fixed finding "
        f"{SIG_ASSOC} runs as an ordinary regression case and its former region is generated")
    # ---- registered witnesses / fixed cases ------------------------------------------------------------------
    bad = frame_case(pp, DEEP_WITNESS)
    if bad is not None:
        ctx.fail_input("deepcopy(): mutating a named nested group of the copy changes the original", DEEP_WITNESS,
                       "original unchanged", bad, theorem="C11 frame (oracle only)", signature=SIG_DEEP)
    w = concat_check(pp, ASSOC_WITNESS, allow_region=True)
    if w is not None and w != "region":
        ctx.fail_input("concatenation law broken (former finding's operands: an empty operand carries a list-all "
                       "name): " + w[0], ASSOC_WITNESS, w[1], w[2], theorem="PP.PR.concat_assoc_former_witness")
    nfix = 2
    for case in FRAME_FIXED:
        nfix += 1
        bad = frame_case(pp, case)
        if bad is not None:
            ctx.fail_input("mutating a copy changes the original (or vice versa)", case, "unchanged", bad,
                           theorem="C11 frame (oracle only)")
    ctx.count_cases("fixed", nfix)
    # ---- heap model vs real class: which probes reach the other side -----------------------------------------------
    scases = [[k, p] for k in SHARE_KINDS for p in SHARE_PROBES]
    slines = [sx(Sym("prshare"), k, p) for k, p in scases]
    simpl = [dumps(bool(sharing_real(pp, k, p))) for k, p in scases]
    d0 = ctx.correspond("sharing-table", scases, slines, simpl, outcome_of=lambda c, o: f"{c[0]}:{o}")
    # ---- deepcopyN / copyModuleDeep (PRHeapDeep.lean) vs real deepcopy() / copy.deepcopy / pickle: sharing pattern of
    #      nested groups, depths 1..6
    dcases = [[k, d] for k in sorted(DEEP) for d in range(1, 7)]
    d0b = ctx.correspond("deep-sharing", [{"kind": k, "depth": d} for k, d in dcases],
                         [sx(Sym("prdeepshare"), k, d) for k, d in dcases],
                         [dumps([bool(b) for b in deep_share_real(pp, k, d)]) for k, d in dcases],
                         outcome_of=lambda c, o: c["kind"])
    d0c = ctx.correspond("container-sharing", [{"shape": "[(g0,'x',g1), g0]", "kind": "deepcopy"}], [sx(Sym("prcontshare"))],
                         [dumps([bool(b) for b in cont_share_real(pp)])], outcome_of=lambda c, o: c["kind"])
    rng = ctx.subrng("tree-sharing")
    tcases = [{"kind": k, "shape": gen_shape(rng)} for _ in range(ctx.budget(40, 400)) for k in sorted(DEEP)]
    d0d = ctx.correspond("tree-sharing", tcases, [sx(Sym("prtreeshare"), c["kind"], shape_sexp(c["shape"])) for c in tcases],
                         [tree_share_real(pp, c["kind"], c["shape"]) for c in tcases],
                         nontrivial=lambda c, o: o.count("T") + o.count("F") > 2, outcome_of=lambda c, o: c["kind"])
    d0 = list(d0) + list(d0b) + list(d0c) + list(d0d)
    # ---- (a) preserve: every kind of copy has the views of the original; model = views of the extracted state ----
    rng = ctx.subrng("preserve")
    cases, lines, impl = [], [], []
    nbad = 0
    for _ in range(ctx.budget(600, 6000)):
        start = c10.gen_start(rng, pp)
        try:
            r = prlib.build_start(pp, start)
        except prlib.ERRS:
            continue
        st_line = sx(Sym("prhist"), prlib.state_sexp(prlib.extract_state(pp, r)), [])
        v0 = views(r)
        for kind in KINDS:
            c = make_copy(r, kind)
            cases.append({"start": start, "kind": kind})
            lines.append(st_line)
            impl.append(dumps([[Sym("start")] + prlib.views_real(pp, c)]))
            if views(c) != v0 and nbad < 3:
                nbad += 1
                ctx.fail_input(f"{kind} does not preserve as_list/as_dict/dump/keys/len", {"start": start, "kind": kind},
                               v0, views(c), theorem="PP.PR.copy_preserves / PP.PR.pickle_roundtrip")
    d1 = ctx.correspond("copy-preserves", cases, lines, impl, nontrivial=lambda c, o: '(("' in o,
                        outcome_of=lambda c, o: c["kind"])
    # ---- (b) concatenation ---------------------------------------------------------------------------------
    rng = ctx.subrng("concat")
    cases, lines, impl = [], [], []
    nreg = 0
    gen_cases = []
    for _ in range(ctx.budget(1200, 12000)):
        if rng.random() < 0.3:
            # operands that share names: the same grammar parsed on different inputs
            gs = prlib.grammars(pp)
            g = rng.choice(sorted(gs))
            gen_cases.append({"objs": [{"parse": [g, rng.choice(gs[g][1])]} for _ in range(3)]})
        else:
            gen_cases.append({"objs": [c10.gen_start(rng, pp, 1) for _ in range(3)]})
    for case in CONCAT_FIXED + gen_cases:
        res = concat_check(pp, case)
        if res == "region":
            nreg += 1
            continue
        if res is not None and len(ctx.fail_inputs) < 3:
            ctx.fail_input("concatenation law broken: " + res[0], case, res[1], res[2],
                           theorem="PP.PR.concat_is_merge / concat_assoc / concat_empty_*")
        try:
            line, tr = concat_trace(pp, case)
        except prlib.ERRS:
            continue
        cases.append(case)
        lines.append(line)
        impl.append(tr)
    d2 = ctx.correspond("concat", cases, lines, impl, nontrivial=lambda c, o: '(("' in o,
                        outcome_of=lambda c, o: "names" if '(("' in o else "no-names")
    ctx.notes["concat_cases_skipped_in_finding_region"] = nreg
    # ---- frames (oracle only) ---------------------------------------------------------------------------------
    rng = ctx.subrng("frame")
    n, kinds, nested = 0, {}, 0
    budget = ctx.budget(2500, 25000)
    if d0 or d1 or d2 or not proof_ok:
        budget *= 3        # a broken obligation / correspondence diff: search harder for a failing input
    for _ in range(budget):
        case = gen_frame_case(rng, pp, attr_ok)
        if case is None or not case["steps"]:
            continue
        n += 1
        kinds[case["kind"]] = kinds.get(case["kind"], 0) + 1
        nested += any(st["path"] for st in case["steps"])
        if frame_case(pp, case) is not None and len(ctx.fail_inputs) < 3:
            small = shrink_frame(pp, case)
            bad = frame_case(pp, small)
            ctx.fail_input("mutating a copy changes the original (or vice versa)", small, "unchanged", bad,
                           theorem="C11 frame (oracle only)",
                           how="harness.props.c11.frame_case(pp, case)")
    ctx.count_cases("frames", n, outcomes=kinds, distinct_keys=range(nested),
                    samples=[FRAME_FIXED[1]])
    ctx.notes["frame_cases_with_nested_group_mutation"] = nested
    # ---- groups inside container tokens, deep kinds (oracle only) ----------------------------------------------------
    rng = ctx.subrng("container")
    n, kinds = 0, {}
    for _ in range(ctx.budget(600, 6000)):
        case = gen_container_case(rng)
        n += 1
        kinds[f"{case['kind']}:{case['container']}"] = kinds.get(f"{case['kind']}:{case['container']}", 0) + 1
        try:
            bad = container_case(pp, case)
        except prlib.ERRS as ex:
            bad = {"what": f"{type(ex).__name__} escaped: {ex}"}
        if bad is not None and len(ctx.fail_inputs) < 3:
            ctx.fail_input("deep copy of a result whose token is a container of groups: " + bad["what"], case, "unchanged", bad,
                           theorem="C11 frame (oracle only)", how="harness.props.c11.container_case(pp, case)")
    ctx.count_cases("frames:container-tokens", n, outcomes=kinds)
    # ---- from_dict (oracle only) ----------------------------------------------------------------------------------
    rng = ctx.subrng("fromdict")
    n = 0
    fixed = [{"a": 1, "b": [1, 2], "c": {"d": "x"}}, {"a": {"b": {"c": [1, "s"]}}}, {"a": []}, {"a": [[1, 2], [3]]},
             {"a": None, "b": ""}]
    dicts = fixed + [gen_dict(rng) for _ in range(ctx.budget(1500, 15000))]
    for d in dicts:
        n += 1
        res = from_dict_check(pp, d)
        if res is not None and len(ctx.fail_inputs) < 3:
            ctx.fail_input("from_dict(d).as_dict() != d", {"dict": d}, _plain(d), res,
                           theorem="PP.FromDict.from_dict_roundtrip")
    ctx.count_cases("from_dict", n, distinct_keys=range(n), samples=[{"dict": fixed[0]}])
    # correspondence of the tree model (structure of from_dict(d) and as_dict()), incl. the excluded empty inner dict
    cdicts = dicts + [{"c": {}}, {"a": {"b": {}}, "k": [1]}, {}]
    from ..sexp import loads
    mouts = [loads(o) for o in ctx.driver.run_sharded([sx(Sym("fromdict"), j_sexp(pp, d)) for d in cdicts])]
    impls = [from_dict_impl(pp, d) for d in cdicts]
    # the internal structure of from_dict(d) (which tokens, which named values) is not something C11 speaks about:
    # a difference there is recorded, never alarmed on; the as_dict() projection is the correspondence
    ctx.notes["from_dict_structure_differs_from_model"] = sum(1 for m, i in zip(mouts, impls) if dumps(m[0]) != i[0])
    d3 = ctx.correspond("from_dict-model", [{"dict": d} for d in cdicts], None, [i[1] for i in impls],
                        model_outputs=[dumps(m[1]) for m in mouts],
                        nontrivial=lambda c, o: "(dct" in o[5:] and "(l" in o,
                        outcome_of=lambda c, o: "nested" if any(isinstance(v, dict) for v in c["dict"].values()) else "flat")
    if d3 and not ctx.fail_inputs:      # the model no longer describes the code: search harder for a failing input
        rng2 = ctx.subrng("fromdict-search")
        for _ in range(ctx.budget(20000, 100000)):
            d = gen_dict(rng2)
            res = from_dict_check(pp, d)
            if res is not None:
                ctx.fail_input("from_dict(d).as_dict() != d", {"dict": d}, _plain(d), res,
                               theorem="PP.FromDict.from_dict_roundtrip")
                break
    ctx.assumptions.append("C11: the frame theorems are about the heap models of copy()/copy.copy/deepcopy()/copy.deepcopy; the "
                           "deep models are tied to the class by the deep-sharing stream and the frame oracle; from_dict: tree model + round-trip "
                           "theorem + structural correspondence")


def replay(data):
    pp = common.import_pyparsing()
    case = data.get("case")
    if isinstance(case, dict) and "steps" in case:
        return frame_case(pp, case) is not None
    if isinstance(case, dict) and "container" in case:
        try:
            return container_case(pp, case) is not None
        except prlib.ERRS:
            return True
    if isinstance(case, dict) and "objs" in case:
        r = concat_check(pp, case, allow_region=True)
        return r is not None and r != "region"
    if isinstance(case, dict) and "dict" in case:
        return from_dict_check(pp, case["dict"]) is not None
    if isinstance(case, dict) and "kind" in case:
        r = prlib.build_start(pp, case["start"])
        return views(make_copy(r, case["kind"])) != views(r)
    ctx = common.Ctx("C11", "quick", data.get("seed", 0))
    run(ctx)
    return bool(ctx.broken or ctx.fail_inputs)
