"""C05 — results names report exactly what the named element matched.

proof:           lean/PPProofs/Props/C05.lean — for ALL annotated token trees: the object the real code builds
                 (`resultOf`: ParseResults.__init__ re-binding on the same object, __iadd__ with offsets / _all_names union /
                 early return) answers every lookup (`[]`, get, attribute, keys, as_dict, nested view) exactly like the
                 declarative reading (bindings of a name at one group level in binding order; last vs all); list
                 concatenation in the parse model = the real `+=` chain; the clauses of the statement as corollaries.
correspondence:  the parse model's annotated tree -> `resultOf` + lookups (all in Lean, driver command `ppnames`) vs the REAL
                 object's canonical view (`as_list()`, for every key `r[key]` = `r.get(key)` = `getattr(r, key)`, recursively)
                 and `as_dict()`; random deep grammars with names + a directed generator; memoization off / packrat / LR.
search (oracle): on the real code only: (1) the lookup forms agree and dump() lists the same names/values; (2) grammars built
                 with a known expected name tree (independent of the model) incl. names inside Combine / FollowedBy / Dict /
                 Located; (3) the Located twin: `e("n")` replaced by `Located(e)("n")` must report, under `value`, what the
                 original grammar reports under "n".
"""
from __future__ import annotations

import json
import random
import re

from .. import common, corr_parse, gen, gram
from ..sexp import Sym, dumps, loads

META = dict(
    text="Lean theorems (PPProofs/Props/C05.lean), FULL STRENGTH for all annotated token trees (= all grammars x inputs x "
         "nesting depths of the parse model): C05_lookup_refines (r[name] on the object built by the transcribed "
         "__init__/__iadd__ = the declarative lookup: values of the name's bindings at this group level in binding order, "
         "all of them for a list-all name, else the last), C05_keys_refine, C05_items_refine, C05_get_refines, "
         "C05_getattr_refines, C05_lookup_forms_agree, C05_as_dict_refines and C05_view_refines (recursively through groups "
         "and nested results), C05_iadd_chain + C05_concat_is_iadd + C05_concat_lookup (the model's list concatenation is "
         "the real += chain, and one += of the two results, for every lookup), and the clauses of the statement: "
         "last_by_default, all_when_list_all, token_vs_list_value, group_names_stay_inside, group_name_is_subresult; about "
         "the parse model for all sub-expression behaviours: matchfirst_tokens_of_one_alternative, "
         "or_tokens_of_one_alternative (tokens+names of '|' / '^' are those of ONE alternative's own parse), "
         "opt_nomatch_binds_nothing, opt_named_nomatch_binds_nothing, opt_default_named; replaced_tokens_first_only "
         "documents a fact of the code (after a token-replacing parse action a list-valued name reports only the first "
         "token, results.py:203). PARTIAL: dump() is not modelled in Lean (checked on the real code against the same "
         "lookups); hidden_keeps_names / followedby_keeps_names / combine_keeps_names / combine_named_nests / "
         "hasKeys_is_haskeys: tokens deleted by FollowedBy and Combine (Tok.hid) keep their names - every lookup is what "
         "it would be with the tokens still there, a named Combine with keys is one nested item. Names of Dict entries "
         "are not in the parse model - decided by the real-code oracle with constructed expectations only; Each is "
         "outside the model.",
    note="Trusted: Lean kernel; axioms propext/Classical.choice/Quot.sound; the parse model incl. its name annotations "
         "(Tok.nm, Act.name / Act.nameL, the Opt null marker, Located's three names; node attributes saveAsList / "
         "modalResults / resultsName extracted from the live objects) and the ParseResults value model PPModel/Mod/PR.lean "
         "- validated differentially on every run against the real object's lookups; harness canonicaliser.",
    technique="Lean 4 refinement proof (operational ParseResults construction = declarative name reading) over the "
              "transcribed model; differential correspondence of the full nested name view; constructed-expectation and "
              "metamorphic oracles on the real code",
    design="§5 C05",
)

THEOREMS = [
    "PP.Names.C05_lookup_refines", "PP.Names.C05_keys_refine", "PP.Names.C05_items_refine", "PP.Names.C05_get_refines",
    "PP.Names.C05_getattr_refines", "PP.Names.C05_lookup_forms_agree", "PP.Names.C05_as_dict_refines",
    "PP.Names.C05_view_refines", "PP.Names.C05_iadd_chain", "PP.Names.C05_concat_is_iadd", "PP.Names.C05_concat_lookup",
    "PP.Names.last_by_default", "PP.Names.all_when_list_all", "PP.Names.token_vs_list_value",
    "PP.Names.group_names_stay_inside", "PP.Names.group_name_is_subresult",
    "PP.Names.matchfirst_tokens_of_one_alternative", "PP.Names.or_tokens_of_one_alternative",
    "PP.Names.opt_nomatch_binds_nothing", "PP.Names.opt_named_nomatch_binds_nothing", "PP.Names.opt_default_named",
    "PP.Names.replaced_tokens_first_only", "PP.Names.resultOf_abs", "PP.Names.resultOf_inv",
    "PP.Names.hidden_keeps_names", "PP.Names.followedby_keeps_names", "PP.Names.combine_keeps_names",
    "PP.Names.combine_named_nests", "PP.Names.hasKeys_is_haskeys",
]

FUEL = corr_parse.FUEL
UNBOUND = "zz_unbound"

# ---------------------------------------------------------------------------------------------------
# canonical view of the REAL object
# ---------------------------------------------------------------------------------------------------


def canon_item(pp, v, probs):
    if isinstance(v, pp.ParseResults):
        return view(pp, v, probs)
    return gram.canon_tok(v)


def view(pp, r, probs):
    """(view (items...) ((key value)...)), keys sorted; every lookup form must give the same value"""
    items = [canon_item(pp, x, probs) for x in list(r)]
    names = []
    for k in sorted(r.keys()):
        a = canon_item(pp, r[k], probs)
        b = canon_item(pp, r.get(k), probs)
        c = canon_item(pp, getattr(r, k), probs)
        if not (dumps(a) == dumps(b) == dumps(c)):
            probs.append(f"lookup forms disagree for {k!r}: r[k]={dumps(a)} get={dumps(b)} attr={dumps(c)}")
        if k not in r:
            probs.append(f"{k!r} in keys() but not `in` the result")
        names.append([k, a])
    if r.get(UNBOUND) is not None or getattr(r, UNBOUND) != "" or UNBOUND in r:
        probs.append("a name that was never bound has a value")
    return [Sym("view"), items, names]


def canon_dict(d):
    if isinstance(d, dict):
        return [Sym("dict")] + [[k, canon_dict(v)] for k, v in sorted(d.items())]
    if isinstance(d, (list, tuple)):
        return [Sym("list")] + [canon_dict(v) for v in d]
    return gram.canon_tok(d)


_DUMP_LINE = re.compile(r"^- ([^:\n]+): (.*)$")


def dump_problems(pp, r, depth=0):
    """dump() starts with the item list and then lists every key of this level (sorted) with what r[key] is: repr of a
    token, the item list of a sub-result (whose own dump follows, indented).  Only the unindented `- key: value` lines are
    read (the `[i]:` item sections print raw tokens and are not about names); sub-results are checked through their own
    dump()."""
    probs = []
    try:
        text = r.dump()
    except Exception as ex:  # noqa
        return [f"dump() raised {type(ex).__name__}"]
    lines = text.split("\n")
    if lines[0] != str(r.as_list()):
        probs.append(f"dump() first line {lines[0]!r} != str(as_list()) {str(r.as_list())!r}")
    shown = [m.groups() for m in (_DUMP_LINE.match(l) for l in lines[1:]) if m]
    keys = sorted(str(k) for k in r.keys())
    if [k for k, _ in shown] != keys:
        probs.append(f"dump() lists the names {[k for k, _ in shown]!r}, keys() are {keys!r}")
        return probs
    for k, txt in shown:
        v = r[k]
        want = (str(v.as_list()) if v else str(v)) if isinstance(v, pp.ParseResults) else repr(v)
        if txt != want:
            probs.append(f"dump(): name {k!r} shows {txt!r}, r[{k!r}] is {want!r}")
        if isinstance(v, pp.ParseResults) and depth < 4:
            probs.extend(f"{k}.{p_}" for p_ in dump_problems(pp, v, depth + 1))
    return probs


def real_outcome(pp, root, s):
    """-> (canonical text, tokens text, [problems of the lookup forms / dump])"""
    probs = []
    try:
        r = root.parse_string(s)
    except pp.ParseBaseException as ex:
        return dumps(gram.exc_canon(pp, ex)), None, probs
    except RecursionError:
        return dumps([Sym("internal"), Sym("RecursionError")]), None, probs
    except Exception as ex:  # noqa - an internal error escaping parse_string: a correspondence difference (C06's subject)
        return dumps([Sym("internal"), Sym(type(ex).__name__)]), None, probs
    try:
        v = view(pp, r, probs)
        probs.extend(dump_problems(pp, r))
        d = canon_dict(r.as_dict())
    except RecursionError:
        return dumps([Sym("internal"), Sym("RecursionError")]), None, []
    except Exception as ex:  # noqa - a lookup on a successful parse raised
        return dumps([Sym("internal"), Sym(type(ex).__name__)]), dumps(gram.canon_toks(r)), \
            [f"a name lookup on the result raised {type(ex).__name__}: {str(ex)[:80]}"]
    return dumps([Sym("ok"), v, d]), dumps(gram.canon_toks(r)), probs


# ---------------------------------------------------------------------------------------------------
# generators
# ---------------------------------------------------------------------------------------------------
# Combine (keeps inner names on the joined token) and FollowedBy (keeps names of the lookahead) are in the model (Tok.hid);
# Dict is not in the parse
# model's name annotations: kept out here, covered by the constructed-expectation oracle below
COMP_KINDS = [("+", 8), ("|", 6), ("^", 4), ("And3", 2), ("MatchFirst3", 2), ("Or3", 2), ("Opt", 5), ("OptD", 3),
              ("ZeroOrMore", 4), ("OneOrMore", 4), ("ManyStop", 1), ("[]", 2), ("*", 1), ("~", 1), ("Group", 6),
              ("Suppress", 3), ("SkipTo", 1), ("DelimitedList", 3), ("Located", 2), ("copy", 1), ("fwdref", 3),
              ("Combine", 4), ("FollowedBy", 2)]
BASE = dict(ws_variants=0.0, ignore=0.0, set_name=0.0, errorstop=0.05, failing_actions=False, fatal_actions=False,
            comp_kinds=COMP_KINDS)
RANDOM_CFG = dict(BASE, names=0.5, actions=0.15)
NAME_POOL = ["x", "y", "z", "x*", "y*", "x", "item*", "y"]
REPL_TAGS = [["const", "K"], ["drop"], ["rev"], ["dup"], ["app", "Z"], ["none"]]


class NameGen(gen.ProgGen):
    """directed: names on leaves, the same name on several elements, `name` / `name*` mixed, names at different nesting
    depth, named elements with token-replacing actions, copies `e("a") + e("b")`, names on a Forward and on its body,
    common-prefix alternatives that bind a name before failing, Opt defaults under the inner / the outer name"""

    def named(self, v, p=1.0, name=None):
        if self.rng.random() >= p:
            return v
        I = self.info[v]
        w = self.fresh("n")
        nm = name or self.rng.choice(NAME_POOL)
        k = self.rng.random()
        if k < 0.5:        # the keyword spellings as often as 'name*' / plain call
            st = [w, "set_results_name", v, nm.rstrip("*"), nm.endswith("*")] + (["camel"] if k < 0.2 else [])
        else:
            st = [w, "name", v, nm]
        self.add(st, gen.Info(I.nullable, I.left, I.shape))
        if self.rng.random() < 0.2:
            self.add(["_", "action", w, self.rng.choice(REPL_TAGS)], None)
        return w

    def seq(self, xs):
        I = self.info
        v = self.fresh("s")
        left, nul = frozenset(), True
        for x in xs:
            if nul:
                left |= I[x].left
            nul = nul and I[x].nullable
        op = ["+", xs[0], xs[1]] if len(xs) == 2 else ["And", list(xs)]
        return self.add([v] + op, gen.Info(nul, left, ("seq", list(xs))))

    def alt(self, xs, op="|"):
        I = self.info
        v = self.fresh("a")
        st = [v, op, xs[0], xs[1]] if len(xs) == 2 else [v, "MatchFirst" if op == "|" else "Or", list(xs)]
        return self.add(st, gen.Info(any(I[x].nullable for x in xs), frozenset().union(*[I[x].left for x in xs]),
                                     ("alt", list(xs))))

    def unary(self, op, a, *extra, nullable=None, shape=None):
        I = self.info
        v = self.fresh("u")
        return self.add([v, op, a, *extra], gen.Info(I[a].nullable if nullable is None else nullable, I[a].left,
                                                     shape or ("seq", [a])))

    def idioms(self):
        r = self.rng
        leaves = [v for v in self.pool if not self.info[v].is_fwd and not self.info[v].nullable]
        if len(leaves) < 2:
            return
        a, b = r.sample(leaves, 2)
        k = r.randrange(12)
        if k >= 9 and k != 11:   # names (also list-all) INSIDE a Combine that matches several times / same name outside
            nm = r.choice(["x*", "x*", "x", "y*"])
            na = self.named(a, name=nm)
            nb = self.named(b, p=0.7, name=r.choice([nm, nm, "x", "y*"]))
            inner = self.seq([na, nb])
            if r.random() < 0.4:
                inner = self.seq([inner, self.unary("ZeroOrMore", nb, nullable=True, shape=("many", nb, 0))])
            c = self.unary("Combine", inner, {"join": r.choice(["", "", "-"]), "adjacent": True}, shape=("tight", [inner]))
            c = self.named(c, p=0.3, name=r.choice(["c", "c*", nm]))
            j = r.randrange(4)
            if j == 0:
                self.seq([c, c])
            elif j == 1:
                self.unary("OneOrMore", c, nullable=False, shape=("many", c, 1))
            elif j == 2:
                self.unary("DelimitedList", c, {"delim": ","}, shape=("dlist", c, ","))
            else:
                self.seq([c, self.named(b, name=nm)])
        elif k == 11:            # FollowedBy keeps the names of its lookahead
            nm = r.choice(["x*", "x", "y"])
            fb = self.unary("FollowedBy", self.named(a, name=nm), nullable=True, shape=("look", a))
            fb = self.named(fb, p=0.3, name=r.choice(["f", nm]))
            self.seq([fb, self.named(a, p=0.7, name=r.choice([nm, "x*"])), b])
        elif k == 0:      # the same element under two names, and under the same name twice
            self.seq([self.named(a, name="x"), self.named(a, name=r.choice(["x", "y", "x*"]))])
        elif k == 1:    # common prefix: the first alternative binds a name, then fails
            first = self.seq([self.named(a, name=r.choice(["x", "x*"])), b, b])
            second = self.seq([self.named(a, name=r.choice(["y", "x"])), b])
            self.alt([first, second], r.choice(["|", "^"]))
        elif k == 2:    # Opt default under the inner name / under the outer name / both
            inner = self.named(a, p=0.6, name=r.choice(["x", "x*"]))
            o = self.unary("Opt", inner, *(["D"] if r.random() < 0.7 else []), nullable=True, shape=("opt", inner))
            self.seq([self.named(o, p=0.5, name=r.choice(["x", "y", "y*"])), b])
        elif k == 3:    # names at different nesting depth, same name inside and outside a group
            g = self.unary("Group", self.seq([self.named(a, name="x"), self.named(b, p=0.5, name="y")]))
            g2 = self.named(g, name=r.choice(["x", "g", "g*"]))
            op = r.choice(["OneOrMore", "ZeroOrMore"])
            self.unary(op, g2, nullable=(op == "ZeroOrMore"), shape=("many", g2, 1 if op == "OneOrMore" else 0))
        elif k == 4:    # repetition of a named token: last vs all
            na = self.named(a, name=r.choice(["x", "x*"]))
            nb = self.named(b, name=r.choice(["x", "x*", "y"]))
            rep = self.unary("OneOrMore", self.alt([na, nb]), nullable=False, shape=("many", na, 1))
            self.named(rep, p=0.5)
        elif k == 5:    # list-valued names with token-replacing actions
            s = self.seq([a, self.named(b, p=0.5)])
            w = self.fresh("n")
            I = self.info[s]
            self.add([w, "name", s, r.choice(["x", "x*"])], gen.Info(I.nullable, I.left, I.shape))
            self.add(["_", "action", w, r.choice(REPL_TAGS)], None)
        elif k == 6 and self.fwds:   # a name on a Forward and on its body
            f = r.choice(self.fwds)
            nf = self.named(f, name=r.choice(["x", "f", "f*"]))
            self.unary("Group", self.seq([a, nf]), nullable=False)
        elif k == 7:    # DelimitedList of named pairs
            pair = self.unary("Group", self.seq([self.named(a, name="k"), self.named(b, name="v")]))
            np_ = self.named(pair, p=0.7, name=r.choice(["pair", "pair*"]))
            d = self.unary("DelimitedList", np_, {"delim": ","}, shape=("dlist", np_, ","))
            self.named(d, p=0.5, name="pairs")
        else:           # named Opt / ZeroOrMore that match nothing, named Suppress / NotAny
            z = self.unary(r.choice(["Opt", "ZeroOrMore"]), r.choice([a, self.unary("Group", a)]), nullable=True,
                           shape=("opt", a))
            self.seq([self.named(z, name=r.choice(["x", "x*"])), self.named(b, p=0.5, name="x")])

    def generate(self):
        r, c = self.rng, self.cfg
        for _ in range(c.forwards):
            f = self.fresh("f")
            self.prog.append([f, "Forward"])
            self.info[f] = gen.Info(False, frozenset([f]), ("fwd", f), is_fwd=True)
            self.fwds.append(f)
        for _ in range(c.n_leaves):
            v = self.leaf()
            self.named(v, p=0.5)
        last = None
        for _ in range(c.n_comp):
            if r.random() < 0.45:
                self.idioms()
            last = self.decorate(self.comp())
        for f in self.fwds:
            cands = [v for v in self.pool if not self.info[v].is_fwd]
            r.shuffle(cands)
            body = None
            for v in cands[:20]:
                self.info[f].body = v
                if f not in self.left_closure(v):
                    body = v
                    break
                self.info[f].body = None
            if body is None:
                body = self.add([self.fresh(), "Literal", "a"], gen.Info(False, shape=("lit", "a")))
                self.info[f].body = body
            self.prog.append(["_", "<<=", f, body])
            self.info[f].nullable = self.info[body].nullable
        root = last
        if self.fwds and r.random() < 0.4:
            f = r.choice(self.fwds)
            root = self.add([self.fresh(), r.choice(["+", "|"]), last, self.named(f, p=0.5)],
                            gen.Info(False, self.info[last].left, ("seq", [last, f])))
        return self.prog, root


DIRECTED_CFG = dict(BASE, names=0.6, actions=0.12, n_leaves=3, n_comp=6,
                    leaf_kinds=[("Literal", 5), ("Word", 6), ("WordIB", 2), ("WordMax", 1), ("Keyword", 1), ("Char", 1),
                                ("Empty", 1), ("StringEnd", 1), ("CharsNotIn", 1)])


def directed_case(rng, n_inputs=6):
    pg = NameGen(rng, gen.Cfg(**DIRECTED_CFG))
    prog, root = pg.generate()
    return prog, root, gen.inputs_for(rng, pg, root, n_inputs)


# ---------------------------------------------------------------------------------------------------
# correspondence runner
# ---------------------------------------------------------------------------------------------------
# ---------------------------------------------------------------------------------------------------
# what the PROGRAM asks for (the model otherwise reads resultsName / modalResults / saveAsList off the live objects)
# ---------------------------------------------------------------------------------------------------
LISTY_TRUE = {"+", "-", "And", "Group", "ZeroOrMore", "OneOrMore", "DelimitedList", "Each", "&"}
LISTY_FALSE = {"Literal", "Word", "Char", "Keyword", "CaselessLiteral", "CaselessKeyword", "CharsNotIn", "Empty", "NoMatch",
               "StringStart", "StringEnd", "LineStart", "LineEnd", "WordStart", "WordEnd", "Suppress", "Combine", "SkipTo"}
ALT_OPS = {"|", "^", "MatchFirst", "Or"}
PASS_OPS = {"name", "set_results_name", "copy", "leave_whitespace", "set_whitespace_chars", "call", "alias"}


def listy(defs, v, seen=()):
    """the property's own rule: a single token for token elements, the token list for sequence, group and repetition
    elements; an alternation is list-valued iff one of its alternatives is.  None = not decided from the program."""
    st = defs.get(v)
    if st is None or v in seen:
        return None
    op = st[1]
    if op == "DelimitedList" and len(st) > 3 and st[3].get("combine"):
        return False      # combine=True wraps the list in a Combine: one joined token
    if op in LISTY_TRUE:
        return True
    if op in LISTY_FALSE:
        return False
    if op in PASS_OPS:
        return listy(defs, st[2], seen + (v,))
    if op in ALT_OPS:
        kids = st[2] if isinstance(st[2], list) else st[2:4]
        vals = [listy(defs, k, seen + (v,)) for k in kids]
        if any(x is True for x in vals):
            return True
        return False if all(x is False for x in vals) else None
    return None


def program_facts(b, prog, nodes, ids):
    """overwrite, in the extracted node table, the facts the naming statements of the program determine: the name and the
    list-all flag they request (`e("n*")`, `set_results_name("n", list_all_matches=True)`, `listAllMatches=True`), and for a
    named ALTERNATION whether it is list-valued (`listy`).  A live object that disagrees then shows up as a difference
    between the real result and the declarative reading."""
    defs = {st[0]: st for st in prog if st[0] != "_"}
    for st in prog:
        if st[1] not in ("name", "set_results_name"):
            continue
        if st[1] == "name":
            nm, star = st[3].rstrip("*"), st[3].endswith("*")
        else:
            star = bool(st[4]) if len(st) > 4 else False
            nm = st[3]
            if nm.endswith("*"):
                nm, star = nm[:-1], True
        obj = b.env.get(st[0])
        i = ids.get(id(obj))
        if i is None or not nm:
            continue
        tgt = st[2]
        while defs.get(tgt) is not None and defs[tgt][1] in PASS_OPS:
            tgt = defs[tgt][2]
        want_list = listy(defs, st[2]) if (defs.get(tgt) is not None and defs[tgt][1] in ALT_OPS) else None
        for act in nodes[i][6]:
            if str(act[0]) in ("name", "nameL"):
                act[1], act[2] = nm, (not star)
                if want_list is not None and str(act[0]) == "name":
                    act[3] = want_list


def eval_names(job):
    """worker: job = dict(prog, root, inputs, modes) -> dict(skip=..) | dict(records=[(input, mode, impl, toks, line, probs)])"""
    pp = common.import_pyparsing()
    try:
        b = gram.build(pp, job["prog"])
    except Exception as ex:  # noqa
        return {"skip": f"build:{type(ex).__name__}"}
    try:
        root = gram.prepare(b, job["root"])
        if corr_parse.nullable_rep(pp, root):
            return {"skip": "nullable-repetition"}
        nodes, _ris, ids, _order = gram.extract_multi(b, [root])
        ri = 0
        program_facts(b, job["prog"], nodes, ids)
    except gram.Unsupported as ex:
        return {"skip": f"unsupported:{ex}"}
    except RecursionError:
        return {"skip": "recursion-in-streamline"}
    kinds = sorted({str(n[0][0]) for n in nodes})
    n_named = sum(1 for n in nodes if n[-1])
    dw = pp.ParserElement.DEFAULT_WHITE_CHARS
    import time as _t
    recs = []
    inputs = list(job["inputs"])
    if any(m[0] != "none" for m in job.get("modes", [])):
        # the model predicts a memoized run by the plain parser (packrat_transparent): keep the inputs on which the plain
        # parser is fast, too (exponential backtracking without the cache would stall the driver, not the real code)
        fast = []
        for s in inputs:
            pp.ParserElement.disable_memoization()
            t0 = _t.process_time()
            try:
                common.with_alarm(0.3, real_outcome, pp, root, s)
            except common.CaseTimeout:
                continue
            if _t.process_time() - t0 < 0.1:
                fast.append(s)
        inputs = fast
    for mode in job.get("modes", [("none",)]):
        for s in inputs:
            if mode[0] == "lr" and len(s) > 10:
                continue     # the seed-growing model re-evaluates finished Forwards: keep its inputs short
            corr_parse.set_mode(pp, mode)
            t0 = _t.process_time()
            try:
                impl, toks, probs = common.with_alarm(corr_parse.CASE_TIMEOUT, real_outcome, pp, root, s)
            except common.CaseTimeout:
                impl, toks, probs = "hang", None, []
            finally:
                pp.ParserElement.disable_memoization()
            if mode[0] == "none" and _t.process_time() - t0 > 0.15:
                impl, toks, probs = "hang", None, []     # exponential backtracking: the model would take minutes
            line = dumps([Sym("ppnames"), corr_parse.mode_sexp(mode), Sym("parse"), FUEL, ri, dw, s, False, [], nodes])[1:-1]
            tline = gram.model_line(corr_parse.mode_sexp(mode), "parse", FUEL, ri, dw, s, False, (), nodes)
            recs.append((s, list(mode), impl, toks, line, tline, probs))
    return {"records": recs, "kinds": kinds, "n_named": n_named}


def prune(prog, root):
    """the statements the root depends on (readability of a reported case; the case is re-evaluated afterwards)"""
    defs = {st[0]: st for st in prog if st[0] != "_"}
    keep, todo = set(), [root]

    def refs(x):
        if isinstance(x, str):
            return [x] if x in defs else []
        if isinstance(x, list):
            return [y for e in x for y in refs(e)]
        if isinstance(x, dict):
            return [y for e in x.values() for y in refs(e)]
        return []

    changed = True
    while changed:
        changed = False
        while todo:
            v = todo.pop()
            if v in keep:
                continue
            keep.add(v)
            changed = True
            todo.extend(refs(defs[v][2:]))
        for st in prog:     # `<<=` / action / ... on something kept pulls in its other operands
            if st[0] == "_" and st[2] in keep:
                for y in refs(st[3:]):
                    if y not in keep:
                        todo.append(y)
                        changed = True
    return [st for st in prog if (st[0] in keep) or (st[0] == "_" and st[2] in keep)]


def shrink_case(c, still_fails):
    p2 = prune(c["prog"], c["root"])
    if len(p2) < len(c["prog"]):
        c2 = dict(c, prog=p2)
        try:
            if still_fails(c2):
                return c2
        except Exception:  # noqa
            pass
    return c


def _names_differ(c):
    r = eval_names(dict(prog=c["prog"], root=c["root"], inputs=[c["input"]], modes=[tuple(c.get("mode", ["none"]))]))
    if "records" not in r or not r["records"]:
        return False
    (s, mode, impl, toks, line, tline, probs) = r["records"][0]
    return bool(probs) or common.Driver().run([line])[0] != impl


def run_names(ctx, stream, jobs):
    """real object's name view vs the Lean view; a difference with EQUAL token lists is a failing input of the property
    (expected = the declarative reading of the model's annotated tree, C05_view_refines / C05_as_dict_refines)"""
    res = common.pmap(eval_names, jobs)
    cases, lines, tlines, impl, toks = [], [], [], [], []
    skips, kinds = {}, {}
    forms = []
    for job, r in zip(jobs, res):
        if "skip" in r:
            k = r["skip"].split(":")[0]
            skips[k] = skips.get(k, 0) + 1
            continue
        for k in r["kinds"]:
            kinds[k] = kinds.get(k, 0) + 1
        for (s, mode, im, tk, line, tline, probs) in r["records"]:
            if im == "hang":     # the real call exceeded the per-case CPU limit (exponential backtracking): not comparable
                skips["case-timeout"] = skips.get("case-timeout", 0) + 1
                continue
            c = {"prog": job["prog"], "root": job["root"], "input": s, "mode": mode}
            cases.append(c)
            lines.append(line)
            tlines.append(tline)
            impl.append(im)
            toks.append(tk)
            if probs:
                forms.append((c, probs))
    model = ctx.driver.run_sharded(lines) if lines else []
    model = ["hang" if (i == "hang" and m.endswith("hang)")) else m for m, i in zip(model, impl)]
    # unbounded recursion of the real code where the model runs out of fuel: left recursion, outside the quantifier
    DIV = "(internal RecursionError)"
    model = [DIV if (i == DIV and m == "hang") else m for m, i in zip(model, impl)]

    def outcome_of(c, io):
        if not io.startswith("(ok"):
            return "no-parse"
        return "ok:named" if "(dict)" not in io else "ok:no-names"

    diffs = ctx.correspond(stream, cases, lines, impl, model_outputs=model, outcome_of=outcome_of,
                           nontrivial=lambda c, io: io.startswith("(ok") and "(dict)" not in io)
    st = ctx.cov["streams"].setdefault(stream, {"cases": 0, "diffs": 0, "outcomes": {}})
    st["skipped_grammars"] = {**st.get("skipped_grammars", {}), **skips}
    kk = st.setdefault("node_kinds_hit", {})
    for k, v in kinds.items():
        kk[k] = kk.get(k, 0) + v
    # lookup forms / dump on the real object (model-free)
    for c, probs in sorted(forms, key=lambda x: (len(x[0]["prog"]), len(x[0]["input"])))[:2]:
        c = shrink_case(c, _names_differ)
        ctx.fail_input("lookup forms of a results name disagree on the real object", c, "r[k] == r.get(k) == r.k, dump() lists them",
                       probs[:3], theorem="PP.Names.C05_lookup_forms_agree", how="harness.props.c05.replay")
    # a names difference on a parse whose token list the model predicts correctly
    if diffs:
        tmodel = ctx.driver.run_sharded([tlines[i] for i in diffs])
        cand = []
        for i, tm in zip(diffs, tmodel):
            if toks[i] is not None and tm == dumps([Sym("ok"), loads(toks[i])]):
                cand.append(i)
        cand.sort(key=lambda i: (len(cases[i]["prog"]), len(cases[i]["input"])))
        for i in cand[:2]:
            cases[i] = shrink_case(cases[i], _names_differ)
            ctx.fail_input("results names differ from the declarative reading of the final parse", cases[i], model[i], impl[i],
                           theorem="PP.Names.C05_view_refines / C05_as_dict_refines", how="harness.props.c05.replay")
        # a difference in a memoizing mode: the real code against itself — the same grammar and input without memoization
        # (results names must report what the named element matched in every mode; the model is not consulted here)
        memo = [i for i in diffs if cases[i]["mode"][0] != "none" and i not in cand[:2]]
        memo.sort(key=lambda i: (len(cases[i]["prog"]), len(cases[i]["input"])))
        found = 0
        for i in memo[:40]:
            c = cases[i]
            r0 = eval_names(dict(prog=c["prog"], root=c["root"], inputs=[c["input"]], modes=[("none",)]))
            recs = r0.get("records") or []
            if not recs or recs[0][2] in ("hang", impl[i]):
                continue
            ctx.fail_input(f"tokens / results names under {c['mode'][0]} memoization differ from the unmemoized parse of the same "
                           "grammar and input", c, recs[0][2], impl[i],
                           theorem="PP.Names.C05_view_refines (the view is a function of the final parse, not of the memo)",
                           how="harness.props.c05.replay")
            found += 1
            if found >= 2:
                break
    return diffs


# ---------------------------------------------------------------------------------------------------
# oracle 2: grammars with a constructed expectation (model-free), incl. the constructs outside the model
# ---------------------------------------------------------------------------------------------------
def _w(rng, alpha, lo=1, hi=3):
    return "".join(rng.choice(alpha) for _ in range(rng.randint(lo, hi)))


def constructed_case(rng):
    """-> dict(build=<spec>, input, expect) ; `build` is interpreted by build_constructed (kept json-able for replays).
    expect: nested dict name -> value, where a value is a str, a list (as_list of the value), or {"sub": {...}} for a
    sub-result whose own names are given."""
    k = rng.randrange(26)
    a, b, c = _w(rng, "ab"), _w(rng, "cd"), _w(rng, "ef")
    n = rng.randint(1, 3)
    as_ = [_w(rng, "ab") for _ in range(n)]
    star = rng.random() < 0.5
    if k == 0:   # tokens in a sequence
        return dict(kind="seq", input=f"{a} {b} {c}", expect={"x": a, "y": b})
    if k == 1:   # repetition of a named token: last / all
        return dict(kind="rep", star=star, input=" ".join(as_), expect={"x": as_ if star else as_[-1]})
    if k == 2:   # name on a sequence / repetition: the token list
        return dict(kind="seqname", input=f"{a} {b} {c}", expect={"s": [a, b], "x": a})
    if k == 3:   # names inside a Group stay inside; the group's name is the sub-result
        return dict(kind="group", input=f"{a} {b} {c}", expect={"g": {"sub": {"x": a, "y": b}, "list": [a, b]}, "z": c},
                    absent=["x", "y"])
    if k == 4:   # alternatives: the one that took no part contributes nothing (it bound a name before failing)
        return dict(kind="alt", op=rng.choice(["|", "^"]), input=f"{a} {c}", expect={"y": a, "w": c}, absent=["x"])
    if k == 5:   # optional: absent / present / default
        present = rng.random() < 0.5
        dflt = rng.random() < 0.5
        exp = {"y": b}
        if present:
            exp["x"] = a
        elif dflt:
            exp["x"] = "D"
        return dict(kind="opt", dflt=dflt, input=(f"{a} {b}" if present else b), expect=exp,
                    absent=[] if "x" in exp else ["x"])
    if k == 6:   # Combine keeps the names of its parts
        return dict(kind="combine", input=f"{a}{b} {c}", expect={"x": a, "y": b, "z": c})
    if k == 7:   # FollowedBy: no tokens, but the names of the lookahead
        return dict(kind="followedby", input=f"{a} {b}", expect={"x": a, "w": a, "y": b})
    if k == 8:   # Located
        return dict(kind="located", input=f"{c} {a} {b}", expect={"locn_start": len(c) + 1, "locn_end": len(c) + len(a) + len(b) + 2,
                                                                     "value": {"sub": {"x": a}, "list": [a, b]}})
    if k == 9:   # Dict: each entry's key is a name on the Dict's result
        keys = rng.sample(["k1", "k2", "k3", "kk"], n)
        vals = [_w(rng, "ab") for _ in keys]
        return dict(kind="dict", input=" ".join(f"{k_} = {v}" for k_, v in zip(keys, vals)), expect=dict(zip(keys, vals)))
    if k == 10:  # Dict inside a Group: entries visible only on the sub-result
        keys = rng.sample(["k1", "k2", "k3"], 2)
        vals = [_w(rng, "ab") for _ in keys]
        return dict(kind="groupdict", input=" ".join(f"{k_} = {v}" for k_, v in zip(keys, vals)) + f" ; {c}",
                    expect={"d": {"sub": dict(zip(keys, vals))}, "z": c}, absent=keys)
    if k == 11:  # list-all name on groups: ordered list of sub-results
        return dict(kind="groups", star=star, input=" ".join(f"{x} {b}" for x in as_),
                    expect={"p": ([[x, b] for x in as_] if star else {"sub": {"x": as_[-1]}, "list": [as_[-1], b]})})
    if k == 12:  # names on a Forward's recursion: inner levels are groups
        depth = rng.randint(1, 3)
        s = "".join(f"( {a} " for _ in range(depth)) + ") " * depth
        exp = {"x": a}
        cur = exp
        for _ in range(depth - 1):
            cur["inner"] = {"sub": {"x": a}}
            cur = cur["inner"]["sub"]
        return dict(kind="forward", input=s.strip(), expect=exp)
    if k >= 22:  # "the token list for sequence elements" on an ALTERNATION with a sequence alternative, chained 2-4 deep,
        #          the sequence in every position, `name` / `name*` (all spellings), single match or in a repetition
        depth = rng.randint(2, 4)
        pos = rng.randrange(depth)
        style = rng.choice(["|", "|", "^", "list", "listor"])
        spell = rng.choice(["plain", "star", "kw", "camel"])
        rep = rng.random() < 0.5
        singles = ["cd", "ef", "gh"]
        stmts = []
        for _ in range(rng.randint(2, 4) if rep else 1):
            which = rng.randrange(depth)
            if which == pos:
                stmts.append([_w(rng, "ab"), _w(rng, "ab")])
            else:
                alphabet = singles[which if which < pos else which - 1]
                stmts.append([_w(rng, alphabet)])
        text = " ; ".join(" = ".join(t) for t in stmts) + (" ;" if rep else "")
        listall = spell != "plain"
        return dict(kind="altseq", depth=depth, pos=pos, style=style, spell=spell, rep=rep, input=text,
                    expect={}, want_matches=(stmts if listall else stmts[-1:]), listall=listall,
                    tokens=[x for t in stmts for x in t])
    if k >= 18:  # list_all_matches by KEYWORD on a compound element that matches several times
        elem = ["seq", "alt", "or", "each"][k - 18]
        spell = rng.choice(["star", "kw", "kw", "camel"])
        stmts = []
        for _ in range(rng.randint(2, 3)):
            if elem in ("seq", "each"):
                stmts.append([_w(rng, "ab"), _w(rng, "cd")])
            else:
                stmts.append([_w(rng, rng.choice(["ab", "cd"]))])
        sep = " = " if elem == "seq" else " "
        text = " ; ".join(sep.join(t) for t in stmts) + " ;"
        return dict(kind="kwstar", elem=elem, spell=spell, input=text, expect={}, want_matches=stmts, listall=True,
                    tokens=[x for t in stmts for x in t])
    if k >= 14:  # a list-all name on the parts of a Combine that matches several times / is also used outside
        paths = [[_w(rng, "ab") for _ in range(rng.randint(1, 3))] for _ in range(rng.randint(2, 3))]
        flat = [x for pth in paths for x in pth]
        texts = [".".join(pth) for pth in paths]
        form = ["seq", "delim", "rep", "outside"][k - 14]
        if form == "seq":
            return dict(kind="combstar", form=form, n=len(paths), input=" -> ".join(texts), expect={"seg": flat}, tokens=texts)
        if form == "delim":
            return dict(kind="combstar", form=form, input=" , ".join(texts), expect={"seg": flat}, tokens=texts)
        if form == "rep":
            return dict(kind="combstar", form=form, input="  ".join(texts), expect={"seg": flat}, tokens=texts)
        return dict(kind="combstar", form=form, input=f"{texts[0]} : {b}", expect={"seg": paths[0] + [b]}, tokens=[texts[0], b])
    # copies of one element under different names
    return dict(kind="copies", input=f"{a} {b} {as_[0]}", expect={"first": a, "second": as_[0], "y": b})


def build_constructed(pp, case):
    A, B, C = pp.Word("ab"), pp.Word("cd"), pp.Word("ef")
    k = case["kind"]
    if k == "seq":
        return A("x") + B("y") + C
    if k == "rep":
        return pp.OneOrMore(A("x*" if case["star"] else "x"))
    if k == "seqname":
        return (A("x") + B)("s") + C
    if k == "group":
        return pp.Group(A("x") + B("y"))("g") + C("z")
    if k == "alt":
        first, second = A("x") + B, A("y") + C("w")
        return (first | second) if case["op"] == "|" else (first ^ second)
    if k == "opt":
        return (pp.Opt(A("x"), "D") if case["dflt"] else pp.Opt(A("x"))) + B("y")
    if k == "combine":
        return pp.Combine(A("x") + B("y")) + C("z")
    if k == "followedby":
        return pp.FollowedBy(A("x") + B) + A("w") + B("y")
    if k == "located":
        return pp.Suppress(C) + pp.Located(A("x") + B)
    if k == "dict":
        return pp.Dict(pp.OneOrMore(pp.Group(pp.Word("k", "k123") + pp.Suppress("=") + A)))
    if k == "groupdict":
        return pp.Group(pp.Dict(pp.OneOrMore(pp.Group(pp.Word("k", "k123") + pp.Suppress("=") + A))))("d") + pp.Suppress(";") + C("z")
    if k == "groups":
        return pp.OneOrMore(pp.Group(A("x") + B)("p*" if case["star"] else "p"))
    if k == "forward":
        f = pp.Forward()
        f <<= pp.Suppress("(") + A("x") + pp.Opt(pp.Group(f)("inner")) + pp.Suppress(")")
        return f
    if k == "copies":
        return A("first") + B("y") + A("second")
    if k in ("altseq", "kwstar"):
        def name_it(e, spell, nm="value"):
            if spell == "plain":
                return e(nm)
            if spell == "star":
                return e(nm + "*")
            if spell == "kw":
                return e.set_results_name(nm, list_all_matches=True)
            return e.set_results_name(nm, listAllMatches=True)
        if k == "altseq":
            pair = A + pp.Suppress("=") + A
            singles = [pp.Word("cd"), pp.Word("ef"), pp.Word("gh")]
            alts = singles[: case["depth"] - 1]
            alts.insert(case["pos"], pair)
            st = case["style"]
            if st == "list":
                e = pp.MatchFirst(alts)
            elif st == "listor":
                e = pp.Or(alts)
            else:
                e = alts[0]
                for x in alts[1:]:
                    e = (e | x) if st == "|" else (e ^ x)
            e = name_it(e, case["spell"])
            return pp.OneOrMore(e + pp.Suppress(";")) if case["rep"] else e
        el = case["elem"]
        e = {"seq": A + pp.Suppress("=") + B, "alt": A | B, "or": A ^ B, "each": A & B}[el]
        return pp.OneOrMore(name_it(e, case["spell"]) + pp.Suppress(";"))
    if k == "combstar":
        path = pp.Combine(A("seg*") + ("." + A("seg*"))[...])
        f = case["form"]
        if f == "seq":
            g = path
            for _ in range(case["n"] - 1):
                g = g + pp.Suppress("->") + path
            return g
        if f == "delim":
            return pp.DelimitedList(path)
        if f == "rep":
            return pp.OneOrMore(path)
        return path + pp.Suppress(":") + B("seg*")
    raise ValueError(k)


def _plain(pp, v):
    return v.as_list() if isinstance(v, pp.ParseResults) else v


def check_expect(pp, r, expect, absent=(), path=""):
    probs = []
    for name, want in expect.items():
        if name not in r:
            probs.append(f"{path}{name}: no value, expected {want!r}")
            continue
        got = r[name]
        if isinstance(want, dict):
            if not isinstance(got, pp.ParseResults):
                probs.append(f"{path}{name}: {got!r} is not a sub-result")
                continue
            if "list" in want and got.as_list() != want["list"]:
                probs.append(f"{path}{name}: sub-result {got.as_list()!r}, expected {want['list']!r}")
            probs.extend(check_expect(pp, got, want.get("sub", {}), (), f"{path}{name}."))
        elif _plain(pp, got) != want:
            probs.append(f"{path}{name}: {_plain(pp, got)!r}, expected {want!r}")
        for form, val in (("get", r.get(name)), ("attribute", getattr(r, name))):
            if dumps(gram.canon_tok(_plain(pp, val))) != dumps(gram.canon_tok(_plain(pp, got))):
                probs.append(f"{path}{name}: {form} gives {_plain(pp, val)!r}, [] gives {_plain(pp, got)!r}")
    for name in absent:
        if name in r or r.get(name) is not None:
            probs.append(f"{path}{name}: has a value ({_plain(pp, r.get(name))!r}) but its element took no part at this level")
    return probs


def _tokens_of(pp, v):
    if isinstance(v, pp.ParseResults):
        return v.as_list()
    return v if isinstance(v, list) else [v]


def check_matches(pp, r, name, want, listall):
    """`want` = the tokens of every match of the named element (program-derived: a sequence alternative yields its token
    list, a token alternative its token); list-all: all of them in order, else the last"""
    probs = []
    for form, got in (("[]", r[name] if name in r else None), ("get", r.get(name)), ("attribute", getattr(r, name)),
                      ("as_dict", r.as_dict().get(name))):
        if listall:
            seen = [_tokens_of(pp, v) for v in (got if got is not None and not isinstance(got, str) else [])]
            if seen != want:
                probs.append(f"{name} by {form}: matches {seen!r}, expected all of {want!r}")
        elif got is None or _tokens_of(pp, got) != want[-1]:
            probs.append(f"{name} by {form}: {got!r}, expected the tokens of the last match {want[-1]!r}")
    return probs


def constructed_job(case):
    pp = common.import_pyparsing()
    out = []
    for mode in case.get("modes", [("none",)]):
        corr_parse.set_mode(pp, tuple(mode))
        try:
            g = build_constructed(pp, case)
            try:
                r = common.with_alarm(2.0, g.parse_string, case["input"], parse_all=True)
            except pp.ParseBaseException as ex:
                out.append((list(mode), [f"constructed sentence does not parse: {ex}"]))
                continue
            except common.CaseTimeout:
                out.append((list(mode), ["hang"]))
                continue
            except Exception as ex:  # noqa
                out.append((list(mode), [f"parse_string raised {type(ex).__name__}: {str(ex)[:80]}"]))
                continue
            try:
                if "tokens" in case and r.as_list() != case["tokens"]:
                    out.append((list(mode), [f"constructed sentence parses to {r.as_list()!r}"]))
                    continue
                probs = check_expect(pp, r, case["expect"], case.get("absent", ()))
                if "want_matches" in case:
                    probs.extend(check_matches(pp, r, "value", case["want_matches"], case["listall"]))
                probs.extend(dump_problems(pp, r))
                d = r.as_dict()
            except Exception as ex:  # noqa
                out.append((list(mode), [f"a name lookup raised {type(ex).__name__}: {str(ex)[:80]}"]))
                continue
            for name, want in case["expect"].items():
                flat = isinstance(want, (str, int)) or (isinstance(want, list) and all(isinstance(x, str) for x in want))
                if flat and name in d and d[name] != want:
                    probs.append(f"as_dict()[{name!r}] = {d[name]!r}, expected {want!r}")
            if probs:
                out.append((list(mode), probs))
        finally:
            pp.ParserElement.disable_memoization()
    return out


# ---------------------------------------------------------------------------------------------------
# oracle 3: the Located twin (model-free, on generated grammars)
# ---------------------------------------------------------------------------------------------------
def twin_of(prog):
    """pick a results name used by exactly one `name` statement without actions on it; returns (name, listall, twin program,
    is_group) or None.  The twin wraps the named element in Located: Located(e)("n") reports e's match under `value`."""
    # Located pre-parses whitespace itself: transparent only when no token can match a blank
    if any(st[1] in ("CharsNotIn", "Combine", "SkipTo") or (st[1] == "DelimitedList" and len(st) > 3 and st[3].get("combine")) or (st[1] in ("Literal", "Word", "Keyword", "CaselessLiteral") and " " in json.dumps(st[2:]))
           for st in prog):
        return None
    def norm(st):     # (base name, list-all) a naming statement requests
        if st[1] == "name":
            return st[3].rstrip("*"), st[3].endswith("*")
        return st[3].rstrip("*"), (bool(st[4]) if len(st) > 4 else False) or st[3].endswith("*")
    names = [st for st in prog if st[1] in ("name", "set_results_name")]
    acted = {st[2] for st in prog if st[0] == "_" and st[1] in ("action", "condition")}
    defs = {st[0]: st for st in prog if st[0] != "_"}
    by_name = {}
    for st in names:
        by_name.setdefault(norm(st)[0], []).append(st)
    cands = [sts[0] for nm, sts in by_name.items() if len(sts) == 1 and sts[0][0] not in acted and sts[0][2] not in acted
             and nm not in ("locn_start", "locn_end", "value")]
    # the named variable must be used exactly once (a shared element under the same name would bind twice)
    out = []
    for st in cands:
        uses = sum(1 for t in prog if t is not st and st[0] in json.dumps(t[2:]))
        if uses == 1 and defs.get(st[2], [None, None])[1] not in ("Forward",):
            out.append(st)
    if not out:
        return None
    st = out[0]
    twin = []
    for t in prog:
        if t is st:
            twin.append([st[0] + "_loc", "Located", st[2]])
            twin.append([st[0], "name", st[0] + "_loc", norm(st)[0] + "*"])   # the twin lists ALL matches
        else:
            twin.append(t)
    return norm(st)[0], norm(st)[1], twin, defs.get(st[2], [None, None])[1], st[0]


def _reports(pp, got, lst, is_group):
    """may a lookup report `got` for a match whose tokens are `lst`?  the token list (a Group: its contents), or - for a
    token element - the single first token"""
    g = _plain(pp, got)
    if is_group:
        return bool(lst) and g == lst[0]
    return g == lst or (bool(lst) and g == lst[0])


def twin_job(job):
    pp = common.import_pyparsing()
    t = twin_of(job["prog"])
    if t is None:
        return 0, []
    name, star, twin, inner_op, var = t
    try:
        b1 = gram.build(pp, job["prog"])
        g1 = gram.prepare(b1, job["root"])
        g2 = gram.prepare(gram.build(pp, twin), job["root"])
        if corr_parse.nullable_rep(pp, g1):
            return 0, []
    except Exception:  # noqa
        return 0, []
    # a parse action on the named element (also one inherited through copy()) replaces what the element "matched": with a
    # token-replacing action a list-valued name reports the first token only (theorem replaced_tokens_first_only; reported
    # to the lead as a candidate finding) - out of this oracle's region
    if b1.env[var].parseAction or any(e.resultsName == name and e.parseAction for e in gram._walk_all(g1)):
        return 0, []
    # a named element that contains itself (through a Forward): the twin's Located would nest inside `value`
    obj = b1.env[var]
    if any(x is obj for c in obj.recurse() for x in gram._walk_all(c)):
        return 0, []
    pp.ParserElement.disable_memoization()
    n, bad = 0, []
    for s in job["inputs"]:
        def both():
            try:
                return g1.parse_string(s), g2.parse_string(s)
            except pp.ParseBaseException:
                return None
            except Exception:  # noqa - an internal error: the correspondence leg's subject
                return None
        try:
            rr = common.with_alarm(2.0, both)
        except (common.CaseTimeout, RecursionError):
            continue
        if rr is None:
            continue
        r1, r2 = rr
        if name not in r2:        # only where the name surfaces at the top level
            continue
        locs = list(r2[name])
        if not all(isinstance(l, pp.ParseResults) and "value" in l and isinstance(l["value"], pp.ParseResults) for l in locs):
            continue
        seen = [l["value"].as_list() for l in locs]      # the tokens of each match of the element, in order
        n += 1
        rec = {"prog": job["prog"], "root": job["root"], "input": s, "name": name}
        if name not in r1:
            if any(seen):         # fine only when the element matched without tokens (e.g. an optional that took no part)
                bad.append(dict(rec, expected=seen, actual="no value"))
            continue
        got = r1[name]
        gl = list(got) if (star and isinstance(got, pp.ParseResults)) else [got]
        ok = False
        nonempty = [l for l in seen if l]               # a match without tokens may bind nothing
        if star:
            for cand in (seen, nonempty):
                if len(cand) == len(gl) and all(_reports(pp, g, l, inner_op == "Group") for g, l in zip(gl, cand)):
                    ok = True
        else:                                           # last match by default
            for cand in (seen[-1:], nonempty[-1:]):
                if cand and _reports(pp, gl[0], cand[0], inner_op == "Group"):
                    ok = True
        if not ok:
            bad.append(dict(rec, expected=seen, actual=[_plain(pp, g) for g in gl]))
    return n, bad


# ---------------------------------------------------------------------------------------------------
def gen_jobs(ctx, tag, n, maker, modes, n_inputs=6):
    jobs = []
    for i in range(n):
        rng = random.Random(f"C05-{ctx.seed}-{tag}-{i}")
        prog, root, inputs = maker(rng, n_inputs)
        jobs.append(dict(prog=prog, root=root, inputs=inputs, modes=modes))
    return jobs


def run(ctx):
    common.import_pyparsing()
    ctx.proof_leg("PPProofs.Props.C05", THEOREMS)
    ctx.rule.append("model-vs-real: random deep grammars with results names (harness/gen.py, names on composites) and the "
                    "directed generator (names on leaves, same name on several elements, name/name* mixed, nesting, "
                    "replacing actions on named elements, copies, named Forwards, backtracked alternatives, Opt defaults) x "
                    "inputs sampled from the grammar + mutations; compared: the full nested view (items, keys, r[k]=get=attr) "
                    "and as_dict(); non-trivial = successful parse with at least one name; modes: memoization off, packrat, "
                    "left-recursion; constructed: 26 grammar families with a constructed expected name tree (incl. Combine, "
                    "FollowedBy, Dict, Located) x random words; twin: e('n') vs Located(e)('n')")
    # registered finding (the model reproduces it - theorem replaced_tokens_first_only - so the correspondence is quiet):
    # after a parse action that returns a list, a list-valued name reports only the first token of the new list
    pp = common.import_pyparsing()
    e = (pp.Word("a") + pp.Word("b"))("x").add_parse_action(lambda t: list(t)[::-1])
    r = e.parse_string("a b")
    if r.as_list() == ["b", "a"] and list(r["x"]) != ["b", "a"]:
        ctx.fail_input("a results name does not report what its element produced",
                       {"program": "(Word('a') + Word('b'))('x').add_parse_action(lambda t: list(t)[::-1])", "input": "a b"},
                       {"tokens": ["b", "a"], "x": ["b", "a"]}, {"tokens": r.as_list(), "x": list(r["x"])},
                       theorem="C05 statement", signature="replaced_list_name_first_only")
    ctx.count_cases("known-finding-witness", 1)
    NONE = [("none",)]
    MEMO = [("packrat", 128), ("packrat", None), ("lr", None)]
    mk_random = lambda rng, k: gen.gen_case(rng, gen.Cfg(**RANDOM_CFG), k)
    run_names(ctx, "model-vs-real:random", gen_jobs(ctx, "rand", ctx.budget(12000, 50000), mk_random, NONE))
    djobs = gen_jobs(ctx, "dir", ctx.budget(24000, 90000), directed_case, NONE)
    run_names(ctx, "model-vs-real:directed", djobs)
    run_names(ctx, "model-vs-real:memo", gen_jobs(ctx, "memo", ctx.budget(4000, 12000), directed_case, MEMO, 4))
    # names riding in cached / memoised results: the aliasing templates of C02 / C03 (one shared named element or Forward
    # parsed at the same location by alternatives of which the first adds the same name later and then fails)
    from . import c02, c03
    tj = c02.name_backtrack_jobs(ctx, ctx.budget(700, 3000)) + [j for j in c03.template_jobs(ctx, ctx.budget(600, 3000))
                                                               if not any(st[1] in ("cond_len",) or (st[1] == "action" and st[3][0] == "failSub") for st in j["prog"])]
    run_names(ctx, "model-vs-real:memo-templates", [dict(prog=j["prog"], root=j["root"], inputs=j["inputs"], modes=MEMO) for j in tj])
    mult = 5 if (ctx.broken and not ctx.fail_inputs) else 1
    if mult > 1:   # (d) a broken obligation / correspondence without a failing input yet: search wider
        run_names(ctx, "search:directed", gen_jobs(ctx, "search", ctx.budget(24000, 90000) * 2, directed_case, NONE))
    # ---- constructed expectations ------------------------------------------------------------------
    rng = ctx.subrng("constructed")
    ccases = [constructed_case(rng) for _ in range(ctx.budget(20000, 60000) * mult)]
    for c in ccases[::7]:
        c["modes"] = [("none",), ("packrat", 128), ("lr", None)]
    cres = common.pmap(constructed_job, ccases)
    nbad = 0
    kinds = {}
    for c, out in zip(ccases, cres):
        kinds[c["kind"]] = kinds.get(c["kind"], 0) + 1
        for mode, probs in out:
            nbad += 1
            if nbad <= 2:
                ctx.fail_input("a results name does not report what its element matched", dict(c, mode=mode), c["expect"], probs[:4],
                               theorem="C05 (constructed expectation)", how="harness.props.c05.replay")
    ctx.count_cases("oracle:constructed", len(ccases), distinct_keys=[json.dumps(c, sort_keys=True) for c in ccases],
                    outcomes=dict(kinds, problems=nbad), samples=ccases[:2])
    # ---- Located twin ---------------------------------------------------------------------------------
    tjobs = djobs
    tres = common.pmap(twin_job, tjobs)
    tn = sum(r[0] for r in tres)
    tbad = sorted([b for r in tres for b in r[1]], key=lambda b: (len(b["prog"]), len(b["input"])))
    for b in tbad[:2]:
        ctx.fail_input("a results name does not report what Located sees its element match",
                       {k: b[k] for k in ("prog", "root", "input", "name")}, b["expected"], b["actual"],
                       theorem="C05 (Located twin)", how="harness.props.c05.replay")
    ctx.count_cases("oracle:located-twin", tn, outcomes={"compared": tn, "problems": len(tbad)},
                    distinct_keys=[json.dumps([j["prog"], s]) for j in tjobs[:200] for s in j["inputs"]])
    ctx.assumptions.append("C05: names of Dict entries are outside the parse model (constructed-expectation oracle only); "
                           "dump() is checked on the real code against the lookups, not modelled")


def replay(data):
    pp = common.import_pyparsing()
    if data.get("replay_kind") == "failing-input":
        c = data["case"]
        if "kind" in c:      # constructed
            return bool(constructed_job(dict(c, modes=[c.get("mode", ["none"])])))
        if "name" in c:      # twin
            return bool(twin_job(dict(prog=c["prog"], root=c["root"], inputs=[c["input"]]))[1])
        return _names_differ(c)
    ctx = common.Ctx("C05", "quick", data.get("seed", 0))
    run(ctx)
    return bool(ctx.broken or ctx.fail_inputs)
