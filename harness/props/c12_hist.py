"""C12, part C — histories in which an IN-PLACE operation is applied to a composite or to a copy AFTER composition.

The statement executed here (on the real code) is the frame statement proved on the heap model
(lean/PPModel/Mod/HeapOps.lean, lean/PPProofs/Props/C12.lean: ignore_frame, leaveWs_frame, copy_noAlias ...):

    build operands; build composites / copies from them (+ | ^ ~ - * [] And MatchFirst Or Group ..., copy(), expr(),
    expr('name'), set_results_name(), ParseExpression.copy copying its children);
    then apply an in-place operation m to one composite / copy X:
        ignore(c)                          documented to act on X and on every sub-expression reachable from X
        leave_whitespace() / ignore_whitespace()
        set_whitespace_chars(cs) / add_parse_action(f) / set_name(n)      documented to act on X itself
    =>  every expression O that does not contain an object of the operation's footprint
        (footprint(ignore, X) = the objects reachable from X; footprint(other, X) = {X})
        parses exactly as it does when m is never applied: alone, and inside a second, independent composite.

Executed as a differential: the same history is built twice with the real API, once WITHOUT the `_!` (in-place)
statements (reference) and once with them; the probes are every variable of the history (operands, copies' originals,
siblings, second composites) whose object graph is disjoint from the footprints, on inputs sampled from the live
objects with leading / interior whitespace and comment text at the start and at the token boundaries.
The footprints and "contains" are computed from the HISTORY by the documented sharing rules (class Sharing: composites
refer to their operands; copy() of an And/MatchFirst/Or/Each copies the children, every other copy() is shallow and
shares the contained expressions - registered finding enhance_copy_shares_child), NOT from the live objects: a copy()
that wrongly keeps a child of the original must not hide the leak it causes.
"""
from __future__ import annotations

import json
import random

from .. import common, corr_parse, gen, gram

MUT = "_!"   # variable slot of an in-place statement that the reference build skips

MUTATORS = [("ignore", 9), ("lw_inplace", 6), ("iw_inplace", 2), ("swc_inplace", 2), ("action", 1), ("set_name", 1)]


# ---------------------------------------------------------------------------------------------------
# operands with a non-skipping top over skipping descendants (and the usual ones)
# ---------------------------------------------------------------------------------------------------
def add_specials(rng, pg):
    """adds statements to pg (with sampling Info); returns the list of new pool variables"""
    I, Info = pg.info, gen.Info
    out = []

    def add(st, info):
        out.append(pg.add(st, info))
        return st[0]

    def lit(m):
        return add([pg.fresh(), "Literal", m], Info(False, shape=("lit", m)))

    def word(cs="ab"):
        return add([pg.fresh(), "Word", cs], Info(False, shape=("word", cs, cs, 1, 0)))

    kinds = ["notany_kw", "lw_led_and", "charsnotin_led", "combine", "notany_and", "wrapped", "lw_led_mf", "followed"]
    rng.shuffle(kinds)
    for k in kinds[: rng.choice([2, 3, 4])]:
        if k == "notany_kw":
            m = rng.choice(["ab", "a", "ba"])
            kw = add([pg.fresh(), "Keyword", m], Info(False, shape=("lit", m)))
            add([pg.fresh(), "~", kw], Info(True, shape=("lit", "")))
        elif k == "lw_led_and":
            d = lit(rng.choice(["-", "x", "+"]))
            l = add([pg.fresh(), "leave_whitespace", d], Info(False, shape=I[d].shape))
            w = word(rng.choice(["ab", "xy"]))
            add([pg.fresh(), "+", l, w], Info(False, shape=("seq", [l, w])))
        elif k == "charsnotin_led":
            c = add([pg.fresh(), "CharsNotIn", "b ,#"], Info(False, shape=("lit", "ax")))
            w = word("ab")
            if rng.random() < 0.5:
                add([pg.fresh(), "+", c, w], Info(False, shape=("seq", [c, w])))
            else:
                d = lit(",")
                add([pg.fresh(), "And", [c, d, w]], Info(False, shape=("seq", [c, d, w])))
        elif k == "combine":
            w, d, w2 = word("ab"), lit(rng.choice(["-", ","])), word("ab")
            s = add([pg.fresh(), "And", [w, d, w2]], Info(False, shape=("seq", [w, d, w2])))
            add([pg.fresh(), "Combine", s, {"adjacent": rng.random() < 0.6}], Info(False, shape=("tight", [s])))
        elif k == "notany_and":
            m = rng.choice(["ab", "a"])
            kw = add([pg.fresh(), "Keyword", m], Info(False, shape=("lit", m)))
            n = add([pg.fresh(), "~", kw], Info(True, shape=("lit", "")))
            w = word("ab")
            add([pg.fresh(), "+", n, w], Info(False, shape=("seq", [n, w])))
        elif k == "wrapped":
            d = lit("-")
            l = add([pg.fresh(), "leave_whitespace", d], Info(False, shape=I[d].shape))
            w = word("ab")
            s = add([pg.fresh(), "+", l, w], Info(False, shape=("seq", [l, w])))
            op = rng.choice(["Group", "Opt", "OneOrMore", "Suppress"])
            add([pg.fresh(), op, s], Info(op == "Opt", shape=("many", s, 1) if op == "OneOrMore" else ("seq", [s])))
        elif k == "lw_led_mf":
            d = lit("x")
            l = add([pg.fresh(), "leave_whitespace", d], Info(False, shape=I[d].shape))
            w, w2 = word("ab"), word("ab")
            s = add([pg.fresh(), "+", l, w], Info(False, shape=("seq", [l, w])))
            add([pg.fresh(), "|", s, w2], Info(False, shape=("alt", [s, w2])))
        elif k == "followed":
            w = word("ab")
            f = add([pg.fresh(), "FollowedBy", w], Info(True, shape=("look", w)))
            add([pg.fresh(), "+", f, w], Info(False, shape=("seq", [f, w])))
    return out


# ---------------------------------------------------------------------------------------------------
# inputs sampled from the LIVE objects (works for every variable of a history)
# ---------------------------------------------------------------------------------------------------
_PREF = "abxy-,+"


def _pick_chars(rng, cs, n):
    pref = [c for c in _PREF if c in cs] or sorted(cs)[:3] or ["a"]
    return "".join(rng.choice(pref) for _ in range(n))


def pieces_of(pp, e, rng, depth=0):
    """token texts of one sentence of `e` (no separators); lookaheads contribute nothing"""
    if depth > 7:
        return ["a"]
    t = type(e)
    if isinstance(e, pp.And._ErrorStop) or isinstance(e, pp.Empty):
        return []
    if isinstance(e, (pp.CaselessLiteral, pp.Literal, pp.Keyword)):
        return [e.match] if e.match else []
    if isinstance(e, pp.Word):
        n = max(e.minLen, 1) + rng.randint(0, 1)
        if e.maxLen and e.maxLen < n:
            n = e.maxLen
        return [_pick_chars(rng, e.initChars, 1) + _pick_chars(rng, e.bodyChars, n - 1)]
    if isinstance(e, pp.CharsNotIn):
        ok = [c for c in "axy" if c not in e.notChars] or ["z"]
        return ["".join(rng.choice(ok) for _ in range(max(e.minLen, 1)))]
    if isinstance(e, pp.LineEnd):
        return ["\n"]
    if isinstance(e, pp.NoMatch):
        return ["?"]
    if isinstance(e, pp.core.PositionToken):
        return []
    if isinstance(e, pp.Each):
        xs = list(e.exprs)
        rng.shuffle(xs)
        return [p for x in xs for p in pieces_of(pp, x, rng, depth + 1)]
    if isinstance(e, pp.And):
        return [p for x in e.exprs for p in pieces_of(pp, x, rng, depth + 1)]
    if isinstance(e, pp.ParseExpression):
        return pieces_of(pp, rng.choice(e.exprs), rng, depth + 1) if e.exprs else []
    if isinstance(e, (pp.NotAny, pp.FollowedBy)):
        return []
    if isinstance(e, pp.Opt):
        return pieces_of(pp, e.expr, rng, depth + 1) if rng.random() < 0.7 else []
    if isinstance(e, pp.core._MultipleMatch):
        lo = 1 if isinstance(e, pp.OneOrMore) else 0
        return [p for _ in range(rng.randint(lo, 2)) for p in pieces_of(pp, e.expr, rng, depth + 1)]
    if isinstance(e, pp.SkipTo):
        return [rng.choice(["", "x", "ab"])] + pieces_of(pp, e.expr, rng, depth + 1)
    if isinstance(e, pp.ParseElementEnhance):
        return pieces_of(pp, e.expr, rng, depth + 1) if e.expr is not None else ["a"]
    return ["a"]


def lookahead_texts(pp, e, rng, seen=None, depth=0):
    """sentences of the expressions under a NotAny / FollowedBy inside `e` (the texts on which the lookahead decides)"""
    seen = seen if seen is not None else set()
    if id(e) in seen or depth > 7:
        return []
    seen.add(id(e))
    out = []
    if isinstance(e, (pp.NotAny, pp.FollowedBy)) and e.expr is not None:
        out.append(pieces_of(pp, e.expr, rng))
    for x in e.recurse():
        out += lookahead_texts(pp, x, rng, seen, depth + 1)
    return out


def inputs_of(pp, e, rng, n_sent=2):
    """sampled sentences of `e` x {single blanks, no blanks, leading blank, wide/newline blanks, comment text at the
    start / between the tokens} + a mutation"""
    out = []
    sents = [pieces_of(pp, e, rng) for _ in range(n_sent)]
    for la in lookahead_texts(pp, e, rng)[:2]:
        sents.append(la + [p for p in sents[0]])
        sents.append(la)
    for P in sents:
        P = [p for p in P if p != ""]
        base = " ".join(P)
        out += [base, " " + base, "".join(P), "\t" + "  ".join(P), "\n".join(P)]
        c = rng.choice(["#", "#x", "#xx"])
        out += [c + " " + base, c + base, " " + c + "\n" + base]
        if len(P) > 1:
            out += [(" " + c + " ").join(P), P[0] + c + " " + " ".join(P[1:]), P[0] + " " + c + "".join(P[1:])]
        out.append(gen.mutate(rng, base))
    out += ["", " ", "#", "# a"]
    return list(dict.fromkeys(out))[:22]


# ---------------------------------------------------------------------------------------------------
# generator of histories
# ---------------------------------------------------------------------------------------------------
def gen_history(seed):
    from . import c12
    rng = random.Random(seed)
    pg, prog, root = c12.base_program(rng, dict(n_leaves=3, n_comp=rng.choice([1, 2, 4]), ws_variants=0.25, actions=0.1,
                                               names=0.0, set_name=0.1, ignore=0.0, forwards=rng.choice([0, 1])))
    specials = add_specials(rng, pg)
    cm = pg.fresh("c")
    if rng.random() < 0.5:
        pg.prog.append([cm, "Literal", "#"])
    else:
        pg.prog.append([cm, "Word", "#", {"body": "x"}])
    prog = list(pg.prog)
    fw = [st for st in prog if st[1] == "<<="]
    prog = [st for st in prog if st[1] != "<<="] + fw
    operands = [v for v in pg.pool if not pg.info[v].is_fwd or True]
    sts, copies, targets = c12.compose_steps(rng, pg, rng.choice([0, 2, 5]))
    mvars = [st[0] for st in sts if st[0] != "_"]
    cnt = [0]

    def fresh(p="h"):
        cnt[0] += 1
        return f"{p}{cnt[0]}"

    def operand():
        r = rng.random()
        if specials and r < 0.55:
            return rng.choice(specials)
        if mvars and r < 0.65:
            return rng.choice(mvars)
        return rng.choice(operands)

    def filler():
        v = fresh("t")
        sts.append([v, rng.choice(["Word", "Literal"]), rng.choice(["ab", "x", ","])] if rng.random() < 0.6 else [v, "Word", "ab"])
        return v

    def composite(o):
        """a fresh composite that has `o` as a DIRECT child"""
        v = fresh()
        k = rng.choice(["+r", "+l", "|r", "|l", "And3", "MatchFirst3", "^", "Group", "Opt", "ZeroOrMore", "-"])
        t = operand() if rng.random() < 0.4 else filler()
        if k == "+r":
            sts.append([v, "+", o, t])
        elif k == "+l":
            sts.append([v, "+", t, o])
        elif k == "-":
            sts.append([v, "-", t, o])
        elif k == "|r":
            sts.append([v, "|", o, t])
        elif k == "|l":
            sts.append([v, "|", t, o])
        elif k == "^":
            sts.append([v, "^", o, t])
        elif k in ("And3", "MatchFirst3"):
            xs = [filler(), o, t]
            rng.shuffle(xs)
            sts.append([v, k[:-1], xs])
        elif k == "ZeroOrMore":
            g = fresh()
            sts.append([g, "+", filler(), o])
            sts.append([v, "ZeroOrMore", g])
        else:
            sts.append([v, k, o])
        return v

    def has_each(v, seen=None):
        """region of the registered finding each_copy_keeps_cached_groups: a copy of a (used) Each parses with the
        ORIGINAL's sub-expressions - expressions containing an Each are never copied here (as in part B)"""
        seen = seen if seen is not None else set()
        if v in seen:
            return False
        seen.add(v)
        st = next((x for x in prog + sts if x[0] == v), None)
        if st is None:
            return False
        if st[1] in ("&", "Each"):
            return True
        return any(has_each(r, seen) for r in _refs(st)) or any(
            has_each(x[3], seen) for x in prog + sts if x[1] == "<<=" and x[2] == v)

    def no_each(o):
        for _ in range(20):
            if not has_each(o):
                return o
            o = operand()
        return filler()

    def copy_of(o):
        o = no_each(o)
        v = fresh()
        k = rng.choice(["copy", "call", "name", "set_results_name"])
        if k in ("copy", "call"):
            sts.append([v, k, o])
        elif k == "name":
            sts.append([v, "name", o, rng.choice(["n1", "n2*"])])
        else:
            sts.append([v, "set_results_name", o, "n3", rng.random() < 0.5])
        return v

    involved = []
    cm2 = None
    for _ in range(rng.choice([1, 1, 2, 3])):
        o = operand()
        involved.append(o)
        # vary the attributes a copying / in-place path could (wrongly) make its sharing decisions on: the operand has a
        # parse action, a custom name, its own ignorable, is a named copy, or has already been used (streamlined).
        # The decoration goes onto a FRESH copy that nothing refers to yet (decorating a pool member that older
        # composites already contain would make the outcome depend on whether those had been streamlined - flattened -
        # before: add_parse_action on an And that a used composite has already flattened away no longer reaches it)
        r = rng.random()
        if r < 0.30:
            o2 = fresh()
            o = no_each(o)
            sts.append([o2, "copy", o] if r < 0.22 else [o2, "name", o, "k1"])
            if r < 0.10:
                sts.append(["_", "action", o2, rng.choice([["app", "Z"], ["none"], ["dup"]])])
            elif r < 0.15:
                sts.append(["_", "set_name", o2, "NO"])
            elif r < 0.22:
                if cm2 is None:
                    cm2 = fresh("c")
                    sts.append([cm2, "Literal", "%"])
                sts.append(["_", "ignore", o2, cm2])
            involved.append(o2)
            o = o2
        elif r < 0.40:
            sts.append(["_", "use", o])
        how = rng.choice(["copy", "copy", "composite", "composite", "composite_of_copy", "copy_of_composite", "nested"])
        if how == "copy":
            x = copy_of(o)
        elif how == "composite":
            x = composite(o)
        elif how == "composite_of_copy":
            x = composite(copy_of(o))
        elif how == "copy_of_composite":
            x = copy_of(composite(o))
        else:
            x = composite(composite(o))
        if rng.random() < 0.25:
            sts.append(["_", "use", x])          # the composite is used (streamlined) before it is changed
        m = gen._weighted(rng, MUTATORS)
        if m == "ignore":
            sts.append([MUT, "ignore", x, cm])
        elif m in ("lw_inplace", "iw_inplace"):
            sts.append([MUT, m, x])
        elif m == "swc_inplace":
            sts.append([MUT, m, x, rng.choice([" ", "\n ", " \t"])])
        elif m == "action":
            sts.append([MUT, "action", x, rng.choice([["const", "K"], ["drop"], ["dup"]])])
        else:
            sts.append([MUT, "set_name", x, "NN"])
        # (no use of x AFTER the operation: in the reference build that would streamline the original operands, in the
        #  test build the copies leave_whitespace put in their place - the two builds must use the same objects)
        if rng.random() < 0.2:   # a second in-place step on the same object (e.g. lw then ignore)
            sts.append([MUT, "ignore", x, cm] if m != "ignore" else [MUT, "lw_inplace", x])
    # second, independent composites around the operands involved (built AFTER the in-place steps)
    for o in list(dict.fromkeys(involved)) + [operand()]:
        composite(o)
        if rng.random() < 0.4:
            composite(o)
    return dict(prog=prog + sts, seed=seed, targets=targets)


# ---------------------------------------------------------------------------------------------------
# execution
# ---------------------------------------------------------------------------------------------------
def reach(pp, roots):
    seen, todo = {}, list(roots)
    while todo:
        e = todo.pop()
        if id(e) in seen:
            continue
        seen[id(e)] = e
        todo.extend(corr_parse._children(pp, e))
    return seen


def footprint(pp, op, x):
    """objects an in-place operation is documented to act on (see module docstring)"""
    if op == "ignore":
        return reach(pp, [x])
    return {id(x): x}


# ---------------------------------------------------------------------------------------------------
# DOCUMENTED sharing, computed from the history itself (not from the live objects: a copy() that wrongly shares a
# child with its original must not hide the leak it causes)
# ---------------------------------------------------------------------------------------------------
_DEEP_OPS = ("+", "-", "|", "^", "&", "And", "MatchFirst", "Or", "Each")       # ParseExpression: copy() copies children
_COPY_OPS = ("copy", "call", "name", "set_results_name", "leave_whitespace", "set_whitespace_chars")


class Sharing:
    """shared(v): the variables whose objects the expression `v` refers to (itself included);
    shared_by_copy(v): the variables a copy of `v` still refers to.  ParseExpression.copy copies its children
    (recursively), every other copy() is shallow (the copy of a Group / Opt / Forward / e[...] / ... shares the contained
    expressions).  Everything that is not a plain And/MatchFirst/Or/Each construction is treated as shallow: a
    superset of the real sharing is only ever a lost probe."""

    def __init__(self, prog):
        self.defs, self.body = {}, {}
        for st in prog:
            if st[0] not in ("_", MUT):
                self.defs[st[0]] = st
            elif st[1] == "<<=":
                self.body.setdefault(st[2], []).append(st[3])
        # least fixed point of the (monotone) equations; Forwards make the variable graph cyclic
        S = {v: {v} for v in self.defs}
        C = {v: set() for v in self.defs}
        changed = True
        while changed:
            changed = False
            for v, st in self.defs.items():
                op = st[1]
                kids = [r for r in _refs(st) if r in self.defs] + self.body.get(v, [])
                if op in _COPY_OPS:
                    src = st[2]
                    ns = {v} | C.get(src, {src})
                    nc = set(C.get(src, {src}))
                elif op in _LEAF_OPS and op != "Forward":
                    ns, nc = {v}, set()
                elif op in _DEEP_OPS:
                    ns = {v}.union(*[S[k] for k in kids])
                    nc = set().union(*[C[k] for k in kids])
                else:
                    ns = {v}.union(*[S[k] for k in kids])
                    nc = ({v} if op == "Forward" else set()).union(*[S[k] for k in kids])
                if ns != S[v] or nc != C[v]:
                    S[v], C[v], changed = ns, nc, True
        self._s, self._c = S, C

    def shared(self, v):
        return self._s.get(v, {v})

    def shared_by_copy(self, v):
        return self._c.get(v, {v})

    def footprint(self, op, x):
        """variables an in-place operation on `x` is documented to act on"""
        return self.shared(x) if op == "ignore" else {x}


def run_history(pp, prog, with_mut, on_mut=None, on_copy=None):
    """build the history; on_mut(b, op, var, expr, phase, k) is called before/after the k-th in-place statement,
    on_copy(b, src var, new var | None, phase) around every plain copy statement (copy / call)"""
    p2, k = [], 0
    for st in prog:
        if st[0] == MUT:
            if not with_mut:
                continue
            p2.append(["_", "use", st[2], {"phase": "pre", "op": st[1], "k": k}])
            p2.append(st)
            p2.append(["_", "use", st[2], {"phase": "post", "op": st[1], "k": k}])
            k += 1
        elif on_copy is not None and st[1] in ("copy", "call") and st[0] != "_":
            p2.append(["_", "use", st[2], {"phase": "pre", "op": "copy", "k": -1}])
            p2.append(st)
            p2.append(["_", "use", st[0], {"phase": "post", "op": "copy", "k": -1, "src": st[2]}])
        else:
            p2.append(st)

    def hook(b, var, expr, payload):
        if isinstance(payload, dict) and "phase" in payload:
            if payload["op"] == "copy":
                on_copy(b, payload.get("src", var), var, payload["phase"])
            elif on_mut is not None:
                on_mut(b, payload["op"], var, expr, payload["phase"], payload["k"])
            return
        # a plain use: parse with it (streamlines it and everything below)
        from . import c12
        c12.fingerprint(pp, expr, ["a b", ""])

    return gram.build(pp, p2, use_hook=hook)


# ---------------------------------------------------------------------------------------------------
# tie: the heap (object graph + identity of the ignoreExprs list objects) before / after each real call, for the
# Lean model of the operation (PPModel/Mod/HeapOps.lean, driver commands c12ignore / c12ws / c12copy / c12inv)
# ---------------------------------------------------------------------------------------------------
class Snapper:
    """numbers objects (per snapshot, old objects first) and list objects (persistently) of one history"""

    def __init__(self, pp, b):
        self.pp, self.b = pp, b
        self.cellidx, self.keep = {}, []

    def snap(self, roots):
        pp = self.pp
        nodes, _, ids, order = gram.extract_multi(self.b, roots)
        cell = []
        for e in order:
            L = e.ignoreExprs
            if id(L) not in self.cellidx:
                self.cellidx[id(L)] = len(self.cellidx)
                self.keep.append(L)
            cell.append(self.cellidx[id(L)])
        self.keep.extend(order)
        return dict(nodes=nodes, ids=ids, order=order, cell=cell,
                    dflt=[bool(e.copyDefaultWhiteChars) for e in order],
                    adj=[bool(e.adjacent) if isinstance(e, pp.Combine) else False for e in order],
                    content={c: nodes[k][5] for k, c in enumerate(cell)})


def heap_sexp(parts):
    """parts: list of (snapshot, lo, hi): objects lo..hi-1 of each snapshot, concatenated (same id space)"""
    nodes, cell, dflt, adj, content = [], [], [], [], {}
    for sn, lo, hi in parts:
        nodes += sn["nodes"][lo:hi]
        cell += sn["cell"][lo:hi]
        dflt += sn["dflt"][lo:hi]
        adj += sn["adj"][lo:hi]
        for c in sn["cell"][lo:hi]:
            content.setdefault(c, sn["content"][c])
    m = max(cell) + 1 if cell else 0
    return [nodes, cell, dflt, adj, [content.get(c, []) for c in range(m)]]


def _equal_ignorables(pp, order):
    """two DISTINCT ignorables that compare equal (`in` is identity in the model, ParserElement.__eq__ in the code)"""
    igs = {}
    for e in order:
        for x in e.ignoreExprs:
            igs[id(x)] = x
    xs = list(igs.values())
    try:
        return any(xs[i] == xs[j] for i in range(len(xs)) for j in range(i + 1, len(xs)))
    except Exception:  # noqa
        return True


def all_objects(b):
    return [v for v in b.env.values() if isinstance(v, b.pp.ParserElement)]


def _copies_an_each(prog):
    """does the history copy (copy / expr() / expr('name') / set_results_name / leave_whitespace-copy) an expression
    that contains an Each?  (region of the registered finding each_copy_keeps_cached_groups)"""
    defs = {st[0]: st for st in prog if st[0] not in ("_", MUT)}
    body = {}
    for st in prog:
        if st[1] == "<<=":
            body.setdefault(st[2], []).append(st[3])
    each = {v for v, st in defs.items() if st[1] in ("&", "Each")}
    changed = True
    while changed:
        changed = False
        for v, st in defs.items():
            if v not in each and any(r in each for r in [x for x in _refs(st) if isinstance(x, str)] + body.get(v, [])):
                each.add(v)
                changed = True
    return any(st[1] in _COPY_OPS and st[2] in each for st in defs.values())


def hist_job(job):
    """worker: reference build (no in-place statements) vs test build; compares the fingerprint of every probe that is
    disjoint from the footprints. job: prog, seed [, only: [var, input]]"""
    from . import c12
    pp = common.import_pyparsing()
    prog = job["prog"]
    out = {"n": 0, "probes": 0, "excluded": 0, "mism": [], "skip": None, "muts": {}}
    foot, keep, foots = {}, [], []
    out["lines"], out["tie_skipped"] = [], {}
    tie = not job.get("only")
    st8 = {"snapper": None, "pre": None}
    dw = gram._chars(pp.ParserElement.DEFAULT_WHITE_CHARS)
    from ..sexp import Sym, dumps

    def tie_skip(why):
        out["tie_skipped"][why] = out["tie_skipped"].get(why, 0) + 1
        st8["pre"] = None

    def tie_pre(b):
        if st8["snapper"] is None:
            st8["snapper"] = Snapper(pp, b)
        try:
            # str() of a DelimitedList streamlines its content (core.py DelimitedList._generateDefaultName): the first
            # extraction may therefore change the objects it reads; the second one reads a settled heap
            st8["snapper"].snap(all_objects(b))
            st8["pre"] = st8["snapper"].snap(all_objects(b))
        except gram.Unsupported:
            tie_skip("unsupported-object")
        except RecursionError:
            tie_skip("recursion")

    def tie_post(b, op, expr, src=None):
        pre = st8["pre"]
        st8["pre"] = None
        if pre is None:
            return
        n = len(pre["order"])
        try:
            extra = [expr] if op == "copy" else ([expr.ignoreExprs[-1]] if op == "ignore" and expr.ignoreExprs else [])
            post = st8["snapper"].snap(pre["order"] + extra)
        except gram.Unsupported:
            return tie_skip("unsupported-object")
        except RecursionError:
            return tie_skip("recursion")
        N = len(post["order"])
        fuel = 4 * N + 16
        after = heap_sexp([(post, 0, N)])
        if op == "ignore":
            if not expr.ignoreExprs or id(expr.ignoreExprs[-1]) in pre["ids"]:
                return tie_skip("ignore-of-an-existing-object")
            if _equal_ignorables(pp, post["order"]):
                return tie_skip("equal-ignorables")
            # the allocation Suppress(other.copy()) is a constructor: the model starts from the old objects as they
            # were + the new objects as they are
            before = heap_sexp([(pre, 0, n), (post, n, N)])
            line = [Sym("c12ignore"), fuel, pre["ids"][id(expr)], post["ids"][id(expr.ignoreExprs[-1])], before, after]
        elif op in ("lw_inplace", "iw_inplace"):
            line = [Sym("c12ws"), op == "iw_inplace", fuel, pre["ids"][id(expr)], dw, heap_sexp([(pre, 0, n)]), after]
        elif op == "copy":
            line = [Sym("c12copy"), fuel, pre["ids"][id(b.env[src])], dw, heap_sexp([(pre, 0, n)]), after, post["ids"][id(expr)]]
        else:
            return
        out["lines"].append({"op": op, "line": dumps(line)[1:-1]})

    def on_mut(b, op, var, expr, phase, k):
        if phase == "pre":
            f = footprint(pp, op, expr)
            foot.update(f)
            foots.append(set(f))
            keep.extend(f.values())
            out["muts"][op] = out["muts"].get(op, 0) + 1

    def on_mut_tie(b, op, var, expr, phase, k):
        if op in ("ignore", "lw_inplace", "iw_inplace"):
            if phase == "pre":
                tie_pre(b)
            else:
                tie_post(b, op, expr)

    def on_copy(b, src, var, phase):
        if phase == "pre":
            tie_pre(b)
        else:
            tie_post(b, "copy", b.env[var], src)

    if _copies_an_each(prog):
        out["skip"] = "region:each_copy_keeps_cached_groups"
        return out
    sh0, rewritten = Sharing(prog), set()
    for st in prog:
        if st[0] == MUT and st[1] in ("lw_inplace", "iw_inplace"):
            rewritten.add(st[2])
        elif st[0] == "_" and st[1] == "use" and (sh0.shared(st[2]) & rewritten):
            # parsing with a composite whose children leave_whitespace() has replaced by copies streamlines the
            # ORIGINAL operands in the reference build and the copies in the test build: the two builds would no longer
            # use the same objects at the same moments (and whatever depends on "had it been streamlined when ..."
            # - e.g. add_parse_action on an And that a used composite has already flattened away - would differ)
            out["skip"] = "use-after-in-place(asymmetric schedule)"
            return out
    try:
        ref = run_history(pp, prog, False)
        tst = run_history(pp, prog, True, on_mut)
        if tie:
            # a third build for the tie (the extraction reads str(e), which streamlines the content of a
            # DelimitedList: kept away from the two builds whose behaviour is compared)
            tb = run_history(pp, prog, True, on_mut_tie, on_copy)
            # the invariant of the heap model on the live objects at the end of the history
            try:
                sn = Snapper(pp, tb).snap(all_objects(tb))
                out["lines"].append({"op": "inv", "line": dumps([Sym("c12inv"), heap_sexp([(sn, 0, len(sn["order"]))])])[1:-1]})
            except gram.Unsupported:
                out["tie_skipped"]["unsupported-object"] = out["tie_skipped"].get("unsupported-object", 0) + 1
    except RecursionError:
        out["skip"] = "recursion"
        return out
    except Exception as ex:  # noqa  (a constructor refused: not a grammar)
        out["skip"] = f"build:{type(ex).__name__}"
        return out
    try:
        if any(c12.pending_flatten_risky(pp, ref.env[t])
               for t in list(job.get("targets", [])) + c12.unstreamlined_targets(prog) if t in ref.env):
            out["skip"] = "region:streamline_changes_unstreamlined_user"
            return out
    except RecursionError:
        out["skip"] = "recursion"
        return out
    members = [st[0] for st in prog if st[0] not in ("_", MUT)]
    only = job.get("only")
    # the probes: every variable that (by the DOCUMENTED sharing) refers to nothing inside a footprint, and that was not
    # built from a footprint variable after the operation (a copy of / a composite around a changed expression
    # legitimately carries the change)
    sh = Sharing(prog)
    fvars, derived = set(), set()
    for st in prog:
        if st[0] == MUT:
            fvars |= sh.footprint(st[1], st[2])
        elif st[0] != "_" and fvars:
            if any((r in derived) or (sh.shared(r) & fvars) for r in _refs(st) if r in sh.defs):
                derived.add(st[0])
    for v in members:
        if only and v != only[0]:
            continue
        if v in derived or (sh.shared(v) & fvars):
            out["excluded"] += 1
            continue
        if only:
            inputs = [only[1]]
        else:
            rng = random.Random(f"{job['seed']}-in-{v}")
            try:
                inputs = inputs_of(pp, ref.env[v], rng)
            except RecursionError:
                continue
        fr = c12.fingerprint(pp, ref.env[v], inputs)
        ft = c12.fingerprint(pp, tst.env[v], inputs)
        if fr is None or ft is None:
            continue
        out["probes"] += 1
        out["n"] += len(inputs)
        if fr != ft:
            j = next(i for i in range(len(fr)) if i >= len(ft) or ft[i] != fr[i])
            out["mism"].append({"kind": "mut", "prog": prog, "seed": job["seed"], "probe": v,
                                "input": inputs[j // 2] if j // 2 < len(inputs) else None,
                                "entry": "parse_string" if j % 2 == 0 else "scan_string",
                                "expected": fr[j], "actual": ft[j] if j < len(ft) else None,
                                "targets": job.get("targets", []),
                                "in_place_statements": [st for st in prog if st[0] == MUT]})
            if len(out["mism"]) >= 3:
                break
    return out


def replay_hist(case):
    r = hist_job(dict(prog=case["prog"], seed=case["seed"], targets=case.get("targets", []),
                      only=[case["probe"], case["input"]]))
    return r["mism"]


def shrink_hist(m):
    """drop statements not needed for the mismatch on (probe, input)"""
    cur, prog = m, list(m["prog"])
    budget, changed = 120, True
    while changed and budget > 0:
        changed = False
        k = len(prog) - 1
        while k >= 0 and budget > 0:
            st = prog[k]
            cand = prog[:k] + prog[k + 1:]
            defined = set()
            ok = st[0] != m["probe"]
            if ok:
                for s in cand:
                    if not all(r in defined for r in _refs(s)):
                        ok = False
                        break
                    if s[0] not in ("_", MUT):
                        defined.add(s[0])
            if ok:
                budget -= 1
                try:
                    r = replay_hist(dict(cur, prog=cand))
                except Exception:  # noqa
                    r = []
                if r:
                    cur, prog, changed = r[0], cand, True
            k -= 1
    return cur


_LEAF_OPS = ("Literal", "Word", "Keyword", "CaselessLiteral", "CaselessKeyword", "CharsNotIn", "Char", "WordStart",
             "WordEnd", "Empty", "NoMatch", "StringStart", "StringEnd", "LineStart", "LineEnd", "Forward")


def _refs(st):
    """variables a statement refers to"""
    op, a = st[1], st[2:]
    if op in _LEAF_OPS:
        return []
    if op in ("And", "MatchFirst", "Or", "Each", "AndL"):
        return [x for x in a[0] if isinstance(x, str)]
    if op in ("+", "-", "|", "^", "&", "...", "<<=", "ignore"):
        return [a[0], a[1]]
    if op == "[:]":
        return [a[0], a[2]]
    if op in ("ZeroOrMore", "OneOrMore"):
        return [a[0]] + ([a[1]] if len(a) > 1 and a[1] is not None else [])
    if op == "SkipTo":
        kw = a[1] if len(a) > 1 else {}
        return [a[0]] + [kw[k] for k in ("fail_on", "ignore") if kw.get(k)]
    return [a[0]]


def run_hist(ctx, jobs, stream="oracle:in-place-after-composition"):
    res = common.pmap(hist_job, jobs)
    n = sum(r["n"] for r in res)
    skips, muts, tskip = {}, {}, {}
    for r in res:
        if r["skip"]:
            skips[r["skip"]] = skips.get(r["skip"], 0) + 1
        for k, v in r["muts"].items():
            muts[k] = muts.get(k, 0) + v
        for k, v in r.get("tie_skipped", {}).items():
            tskip[k] = tskip.get(k, 0) + v
    mism = [m for r in res for m in r["mism"]]
    ctx.count_cases(stream, n, distinct_keys=[j["seed"] for j in jobs],
                    outcomes={"probe-inputs": n, "probes-compared": sum(r["probes"] for r in res),
                              "probes-inside-a-footprint(not compared)": sum(r["excluded"] for r in res),
                              "mismatch": len(mism), **{"op:" + k: v for k, v in muts.items()},
                              **{"skipped:" + k: v for k, v in skips.items()}},
                    samples=[{"prog": jobs[0]["prog"]}] if jobs else [])
    # tie: the real calls vs the heap model, the heap invariant on the live objects (compiled Lean driver)
    idx = [(k, l) for k, r in enumerate(res) for l in r.get("lines", [])]
    verd = ctx.driver.run_sharded([l["line"] for _, l in idx]) if idx else []
    hist, bad_op, bad_inv = {}, [], []
    for (k, l), v in zip(idx, verd):
        key = l["op"] + " " + v
        hist[key] = hist.get(key, 0) + 1
        if l["op"] == "inv":
            if v != "(inv T)":
                bad_inv.append({"prog": jobs[k]["prog"], "driver": v})
        else:
            if v.startswith("(heapop F") or not v.startswith("(heapop"):
                bad_op.append({"op": l["op"], "prog": jobs[k]["prog"], "driver": v})
            if v.endswith(" F)"):
                bad_inv.append({"op": l["op"], "prog": jobs[k]["prog"], "driver": v})
    st = ctx.cov["streams"].setdefault("tie:heap-operations", {"cases": 0, "diffs": 0, "outcomes": {}})
    st["cases"] += len(idx)
    st["diffs"] += len(bad_op) + len(bad_inv)
    for k, v in hist.items():
        st["outcomes"][k] = st["outcomes"].get(k, 0) + v
    st["skipped"] = {**st.get("skipped", {}), **{k: st.get("skipped", {}).get(k, 0) + v for k, v in tskip.items()}}
    ctx.cov["evaluations"] += len(idx)
    ctx.cov["traces_validated_against_impl"] += len(idx)
    n_ops = sum(1 for _, l in idx if l["op"] != "inv")
    ctx.obligation("the real copy() / ignore() / leave_whitespace() / ignore_whitespace() calls == copyOp / ignorePush / wsOp of "
                   "the heap model on the heap extracted before the call (heapMatch) [%d calls, %s]" % (n_ops, stream),
                   not bad_op, json.dumps(bad_op[:2])[:1500])
    ctx.obligation("heap invariant on the live objects: every element owns its ignoreExprs list object (invCheck) "
                   "[%d heaps, %s]" % (len(idx), stream), not bad_inv, json.dumps(bad_inv[:2])[:1500])
    seen = set()
    for m in mism:
        key = tuple(sorted({st[1] for st in m["in_place_statements"]}))
        if key in seen or len(seen) >= 2:
            continue
        seen.add(key)
        m = shrink_hist(m)
        ctx.fail_input("an expression outside the footprint of an in-place operation (applied to a composite / copy built "
                       "from it) parses differently after the operation", m, m["expected"], m["actual"],
                       theorem="PP.Heap.ignore_frame / leaveWs_frame / copy_noAlias (C12 value semantics)",
                       how="harness.props.c12_hist.replay_hist")
    return mism


def gen_hist_jobs(ctx, n, tag="hist"):
    return [gen_history(f"C12-{ctx.seed}-{tag}-{i}") for i in range(n)]
