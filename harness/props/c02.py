"""C02 — packrat memoization never changes a parse outcome.

proof:           lean/PPProofs/Props/C02.lean — for every grammar of the modelled class, every input and EVERY cache
                 content (hence every size 0/1/2/128/unbounded and eviction order): a `_parse` call / parse_string /
                 scan_string that terminates without memoization gives the same outcome with it; `_FifoCache.set`
                 and `_UnboundedCache.set` keep the cache consistent for every size.
correspondence:  (a) the uncached model vs the real code with memoization off (ties the model to core.py);
                 (b) the real code under packrat 0/1/2/128/None vs the same model (theorem instance: the model's
                     packrat outcome equals its uncached outcome for any cache).
search (oracle): the statement executed on the real code: for every entry point, outcomes under every cache size ==
                 outcomes with memoization disabled, compared on (as_list, as_dict, dump | exception type, loc, msg),
                 including grammars whose actions mutate their tokens in place and callers that mutate yielded
                 results during scan_string (aliasing clause), and sharing-heavy grammars (message clause).
"""
from __future__ import annotations

import json
import random

from .. import common, corr_parse, gen, gram

META = dict(
    text="Lean theorems (PPProofs/Props/C02.lean) prove, for all grammars of the modelled class (29 element kinds incl. "
         "And/MatchFirst/Or/Opt/repetition/lookahead/SkipTo/Forward/Group/Combine, ignorables, pure actions), all inputs "
         "and ALL cache contents - therefore every cache size (0, 1, 2, 128, unbounded) and every eviction order - that "
         "any _parse call, parse_string(parse_all) and the whole scan_string match list (hence search_string, "
         "transform_string, split) that terminate without memoization give the same outcome (end, token tree | "
         "exception class and location) with packrat; plus that _FifoCache.set/_UnboundedCache.set preserve cache "
         "consistency for every size. The proof rests on fuel monotonicity of the parse model (PPProofs/Lemmas/"
         "ParseMono.lean, all helpers). PARTIAL w.r.t. the statement: exception *messages* and the no-aliasing clause "
         "(copy on store and on hit) are not in the Lean model; they are decided by the differential oracle on the real "
         "code (all entry points x all cache sizes, in-place-mutating actions, caller mutation during scan_string).",
    note="Trusted: Lean kernel; axioms propext/Classical.choice/Quot.sound; the parse model (hand transcription of "
         "core.py, validated by the correspondence run on every check, node attributes extracted from the live "
         "objects); the abstraction of the cache as an oracle indexed by (depth, key) that may answer any call with any "
         "value a completed uncached run of that key produces; element classes outside the model (Each, Regex, "
         "QuotedString, White, Dict, ...) are covered by the differential oracle only.",
    technique="Lean 4 proof (cache-oracle refinement + fuel monotonicity) over a transcribed parse model; differential "
              "correspondence and packrat-vs-none oracle on the real code",
    design="§5 C02",
)

THEOREMS = [
    "PP.Parse.packrat_transparent",
    "PP.Parse.packrat_parseString",
    "PP.Parse.packrat_scanString",
    "PP.Parse.packrat_transformString",
    "PP.Parse.fifo_cache_sound",
    "PP.Parse.fifoSet_ok",
    "PP.Parse.stored_value_correct",
    "PP.Parse.fifo_size0_empty",
    "PP.Parse.parse_mono",
    "PP.Parse.parse_fuel_irrelevant",
    "PP.Parse.parseStep_mono",
]

MODES = [("packrat", 0), ("packrat", 1), ("packrat", 2), ("packrat", 128), ("packrat", None)]
ENTRIES = [("parse", ()), ("parseAll", ()), ("scan", (100, True, False)), ("scan", (100, False, True)), ("transform", ())]

SHARING = dict(n_leaves=2, n_comp=7, p_reuse=0.92, forwards=0, actions=0.0, ws_variants=0.0, ignore=0.0, set_name=0.25, names=0.3,
               leaf_kinds=[("Word", 3), ("WordIB", 1), ("Literal", 3)],
               comp_kinds=[("+", 6), ("|", 5), ("^", 2), ("Opt", 4), ("ZeroOrMore", 3), ("OneOrMore", 1), ("Group", 1),
                           ("~", 1), ("FollowedBy", 1), ("And3", 2), ("MatchFirst3", 1)])


def _jsonable(x):
    return json.loads(json.dumps(x, default=repr))


def full_outcome(pp, root, entry, s, opts, mutate=False):
    """everything the statement lists as observable, for one call on the real code"""
    try:
        if entry in ("parse", "parseAll"):
            r = root.parse_string(s, parse_all=(entry == "parseAll"))
            return ["ok", _jsonable(r.as_list()), _jsonable(r.as_dict()), r.dump()]
        if entry == "scan":
            mm, sk, ov = opts
            out = []
            try:
                for t, st, en in root.scan_string(s, max_matches=mm, overlap=ov, always_skip_whitespace=sk):
                    out.append([_jsonable(t.as_list()), _jsonable(t.as_dict()), st, en])
                    if mutate:  # the caller mutates what it was handed, while the cache is still live
                        t.append("MUT")
                        t["mut"] = "x"
            except pp.ParseBaseException as ex:
                return ["scan-exc", out, type(ex).__name__, ex.loc, ex.msg]
            return ["scan", out]
        if entry == "search":
            r = root.search_string(s)
            return ["ok", _jsonable(r.as_list())]
        if entry == "transform":
            return ["ok", root.transform_string(s)]
    except pp.ParseBaseException as ex:
        return ["exc", type(ex).__name__, ex.loc, ex.msg]
    except RecursionError:
        return ["internal", "RecursionError"]
    except Exception as ex:  # noqa
        return ["internal", type(ex).__name__, str(ex)[:80]]


def oracle_job(job):
    """worker: returns (n_calls, [mismatch dicts])"""
    pp = common.import_pyparsing()
    try:
        b = gram.build(pp, job["prog"])
        root = gram.prepare(b, job["root"])
    except Exception:
        return 0, [], 0
    if corr_parse.nullable_rep(pp, root):
        return 0, [], 0
    n, bad, fails = 0, [], 0
    entries = [("parse", ()), ("parseAll", ()), ("scan", (100, True, False)), ("scan", (100, False, True)),
               ("search", ()), ("transform", ())]
    for s in job["inputs"]:
        for entry, opts in entries:
            for mutate in ((False, True) if entry == "scan" else (False,)):
                base = None
                for mode in [("none",)] + MODES:
                    # transform_string sets keepTabs for good: use a fresh build so every mode sees the same object state
                    corr_parse.set_mode(pp, mode)
                    try:
                        o = common.with_alarm_retry(corr_parse.CASE_TIMEOUT, full_outcome, pp, root, entry, s, opts, mutate)
                    except common.CaseTimeout:
                        o = ["hang"]
                    finally:
                        pp.ParserElement.disable_memoization()
                    n += 1
                    if mode == ("none",):
                        base = o
                        if o[0] in ("exc", "scan-exc"):
                            fails += 1
                    elif o != base and base != ["hang"]:
                        bad.append({"prog": job["prog"], "root": job["root"], "input": s, "entry": entry, "opts": list(opts),
                                    "mutate": mutate, "mode": list(mode), "expected": base, "actual": o})
                        break
    return n, bad, fails


def gen_jobs(ctx, tag, n, cfg_kw, n_inputs, extra_inputs=()):
    jobs = []
    for i in range(n):
        rng = random.Random(f"C02-{ctx.seed}-{tag}-{i}")
        prog, root, inputs = gen.gen_case(rng, gen.Cfg(**cfg_kw), n_inputs)
        jobs.append(dict(prog=prog, root=root, inputs=list(inputs) + list(extra_inputs)))
    return jobs


def name_backtrack_jobs(ctx, n):
    """template stream: one shared, named first element used by several alternative sequences; a later element of an
    alternative that fails late carries the same name (plain or list-all) - the shape where an in-place merge into a
    cached or memoised result would show"""
    jobs = []
    for i in range(n):
        r = random.Random(f"C02-{ctx.seed}-nb-{i}")
        names = ["item", "item*", "x", "x*"]
        prog = [["k0", "Word", "ab"], ["k", "name", "k0", r.choice(names)], ["a0", "Word", "ab"],
                ["a", "name", "a0", r.choice(names)], ["b0", "Word", "ab"]]
        prog.append(["b", "name", "b0", r.choice(names)] if r.random() < 0.5 else ["b", "copy", "b0"])
        prog.append(["t", "Literal", r.choice(["x", ";", "+"])])
        kk = "k"
        if r.random() < 0.3:
            prog.append(["kg", r.choice(["Group", "Opt", "OneOrMore"]), "k"])
            kk = "kg"
        prog.append(["s1", "And", [kk, "a", "t"]])
        prog.append(["s2", "And", [kk, "b"]] if r.random() < 0.7 else ["s2", "copy", kk])
        alts = ["s1", "s2"]
        if r.random() < 0.3:
            prog.append(["s3", "And", [kk, "a", "b", "t"]])
            alts = ["s3"] + alts
        prog.append(["root", r.choice(["MatchFirst", "Or"]), alts])
        if r.random() < 0.3:
            prog.append(["rr", "OneOrMore", "root"])
            root = "rr"
        else:
            root = "root"
        jobs.append(dict(prog=prog, root=root, inputs=["a b", "a b x", "ab", "a b ;", "a b b", "a b a b x", "a"]))
    return jobs


def trykey_jobs(ctx, n, tag="C02"):
    """one container that carries a parse action / condition with call_during_try (so its own actions run in trial parses)
    over children whose ORDINARY actions change the tokens, tried at one location first as a trial (first pass of Or /
    Each, a lookahead, a stop_on check, SkipTo's scan) and then for real: the trial's result (children's actions not run)
    must not be served for the real parse"""
    jobs = []
    for i in range(n):
        r = random.Random(f"{tag}-{ctx.seed}-tk-{i}")
        chg = [["const", "K"], ["dup"], ["app", "Z"], ["rev"], ["drop"]]
        prog = [["n", "Word", "01"], ["w", "Word", "ab"], ["_", "action", "n", r.choice(chg)]]
        if r.random() < 0.6:
            prog.append(["_", "action", "w", r.choice(chg)])
        body = r.choice([["c0", "+", "n", "n"], ["c0", "+", "n", "w"], ["c0", "Group", "n"], ["c0", "OneOrMore", "n"],
                         ["c0", "+", "w", "n"]])
        prog.append(body)
        if r.random() < 0.5:
            prog += [["_", "condition", "c0", True], ["_", "call_during_try", "c0"]]
        else:
            prog += [["_", "action", "c0", ["none"]], ["_", "call_during_try", "c0"]]
        shape = r.choice(["or", "or", "each", "followed", "notany", "stop", "skipto"])
        prog.append(["x", "Word", "ab01"])
        if shape == "or":
            prog.append(["root", "^", "c0", "x"] if r.random() < 0.5 else ["root", "^", "x", "c0"])
        elif shape == "each":
            prog += [["y", "Literal", "+"], ["root", "&", "c0", "y"]]
        elif shape == "followed":
            prog += [["f", "FollowedBy", "c0"], ["root", "+", "f", "c0"]]
        elif shape == "notany":
            prog += [["y", "Literal", "+"], ["f", "~", "y"], ["root", "+", "f", "c0"]]
        elif shape == "stop":
            prog += [["y", "Literal", "+"], ["z", "ZeroOrMore", "y", "c0"], ["root", "+", "z", "c0"]]
        else:
            prog += [["root", "SkipTo", "c0", {"include": True, "fail_on": None, "ignore": None}]]
        if r.random() < 0.3:
            prog.append(["rr", "OneOrMore", "root"])
            root = "rr"
        else:
            root = "root"
        jobs.append(dict(prog=prog, root=root, inputs=["  01 10", "01 ab", "ab 01", "+ 01 1", "+ + 0 1 ab", "01", "0 1 + a", "a"]))
    return jobs


def prekey_jobs(ctx, n):
    """one element object whose pre-parse matters although it does not skip whitespace (LineStart overrides preParse; a
    leave_whitespace()d element with ignorables still skips those) tried at ONE location both without pre-parse (first
    member of a sequence inside Opt / Group / Forward) and with it (later member of a sequence): the cache must keep the
    two attempts apart"""
    jobs = []
    for i in range(n):
        r = random.Random(f"C02-{ctx.seed}-pk-{i}")
        prog = [["w", "Word", "ab"], ["d", "Literal", r.choice(["-", ":"])]]
        if r.random() < 0.5:
            prog.append(["X", "LineStart"])
            inputs = ["a\nb", "a\n-b\nb", "a b", "a\n\nb", "a\n:b\nab"]
        else:
            prog += [["h", "Literal", "#"], ["X", "leave_whitespace", "w"], ["_", "ignore", "X", "h"]]
            inputs = ["a#b", "a#b-#b", "a##b", "ab", "a #b", "a#b:#ab"]
        first = r.choice(["x", "xd", "xdw"])
        seqs = {"x": ["X"], "xd": ["X", "d"], "xdw": ["X", "d", "w"]}[first]
        prog.append(["s1", "And", seqs] if len(seqs) > 1 else ["s1", "copy", "X"])
        wrap = r.choice(["Opt", "Opt", "Group", "Forward", "ZeroOrMore"])
        if wrap == "Forward":
            prog += [["F", "Forward"], ["_", "<<=", "F", "s1"], ["o", "Opt", "F"]]
        elif wrap == "Group":
            prog += [["g", "Group", "s1"], ["o", "Opt", "g"]]
        elif wrap == "ZeroOrMore" and len(seqs) > 1:
            prog.append(["o", "ZeroOrMore", "s1"])
        else:
            prog.append(["o", "Opt", "s1"])
        tail = r.choice([["X", "w"], ["X", "w", "X"], ["X"]]) if prog[2][0] == "X" and prog[2][1] == "LineStart" else r.choice([["X"], ["X", "d", "X"]])
        prog.append(["root", "And", ["w", "o"] + tail])
        jobs.append(dict(prog=prog, root="root", inputs=inputs))
    return jobs


def stale_job(job):
    """history: parse S, change the grammar in place (add a parse action to a leaf), then scan / transform / split an
    equal string - every entry point starts from an empty cache, so packrat must agree with no memoization"""
    pp = common.import_pyparsing()
    n, bad = 0, []
    for s in job["inputs"]:
        base = None
        for mode in [("none",)] + MODES:
            corr_parse.set_mode(pp, mode)
            try:
                def hist():
                    b = gram.build(pp, job["prog"])
                    root = gram.prepare(b, job["root"])
                    out = [full_outcome(pp, root, "parse", s, ())]
                    b.env[job["leaf"]].add_parse_action(lambda t: ["Z"])
                    s2 = "".join(list(s))          # an equal, not identical, string
                    out.append(full_outcome(pp, root, job["entry"], s2, (100, True, False)))
                    return out
                o = common.with_alarm_retry(corr_parse.CASE_TIMEOUT * 2, hist)
            except common.CaseTimeout:
                o = ["hang"]
            except Exception as ex:  # noqa
                o = ["build", type(ex).__name__]
            finally:
                pp.ParserElement.disable_memoization()
            n += 1
            if mode == ("none",):
                base = o
            elif o != base and base != ["hang"]:
                bad.append({"prog": job["prog"], "root": job["root"], "input": s, "entry": job["entry"], "opts": [], "mutate": False,
                            "mode": list(mode), "expected": base, "actual": o, "history": {"leaf": job["leaf"]}})
                break
    return n, bad, 0


def stale_jobs(ctx, n):
    jobs = []
    for i in range(n):
        r = random.Random(f"C02-{ctx.seed}-stale-{i}")
        prog = [["w", "Word", "ab"], ["n", "Word", "01"], ["c", "Literal", ","], ["it", "+", "w", "n"],
                ["root", "DelimitedList", "it"] if r.random() < 0.5 else ["root", "OneOrMore", "it"]]
        jobs.append(dict(prog=prog, root="root", leaf=r.choice(["w", "n"]), entry=r.choice(["scan", "transform", "search"]),
                         inputs=["ab12, cd34", "a1 b0", "ab1,ba0 x b1"]))
    return jobs


def corpus_jobs():
    out = []
    d = common.VERIF / "corpus" / "C02"
    for f in sorted(d.glob("*.json")) if d.exists() else []:
        out.append(json.loads(f.read_text()))
    return out


# ---- every public element class (the exported zoo, outside the parse model): packrat vs no memoization ---------------
STATEFUL_ACTIONS = {"copy_token_to_repeater", "count_field_parse_action", "must_match_these_tokens"}


def zoo_stateful(pp, expr):
    """helpers whose parse actions carry state between elements (match_previous_*, counted_array): outside the
    quantifier ('parse actions free of side effects')"""
    seen, todo = set(), [expr]
    while todo:
        e = todo.pop()
        if id(e) in seen:
            continue
        seen.add(id(e))
        if any(getattr(f, "__name__", "") in STATEFUL_ACTIONS for f in e.parseAction):
            return True
        todo.extend(corr_parse._children(pp, e))
    return False


def zoo_packrat_job(seed):
    from . import c06
    from .. import zoo
    pp = common.import_pyparsing()
    import warnings
    warnings.simplefilter("ignore")
    try:
        expr, desc = c06.zoo_build(pp, seed)
        if not isinstance(expr, pp.ParserElement):
            return 0, [], 0
        expr.streamline()
        if corr_parse.nullable_rep(pp, expr) or c06.cdt_spread(pp, expr) or zoo_stateful(pp, expr):
            return 0, [], 0
    except Exception:
        return 0, [], 0
    rng = random.Random(f"{seed}-pk-inputs")
    n, bad, fails = 0, [], 0
    entries = [("parse", ()), ("parseAll", ()), ("scan", (100, False, False))]
    for s in rng.sample(zoo.INPUTS, 5):
        for entry, opts in entries:
            base = None
            for mode in [("none",), ("packrat", 128), ("packrat", None)]:
                try:
                    fresh, _ = c06.zoo_build(pp, seed)      # a fresh object per call: nothing carried over between modes
                except Exception:
                    break
                corr_parse.set_mode(pp, mode)
                try:
                    o = common.with_alarm_retry(corr_parse.CASE_TIMEOUT, full_outcome, pp, fresh, entry, s, opts, False)
                except common.CaseTimeout:
                    o = ["hang"]
                finally:
                    pp.ParserElement.disable_memoization()
                n += 1
                if mode == ("none",):
                    base = o
                    if o[0] in ("hang", "internal"):
                        break
                elif o != base and o != ["hang"]:
                    bad.append({"prog": [["zoo", seed, desc, str(expr)[:100]]], "root": "zoo", "zoo_seed": seed, "input": s, "entry": entry,
                                "opts": list(opts), "mode": list(mode), "expected": base, "actual": o})
                    break
    return n, bad, fails


def probe_after_real_jobs(ctx, n):
    """one element object whose parse action / condition (run only in a real parse) rejects the match, first parsed for
    real and then probed WITHOUT actions at the same location (stop_on sentinel, NotAny, FollowedBy, SkipTo target, Or's
    trial pass): the real parse's verdict must not be served for the probe, nor the other way round"""
    jobs = []
    for i in range(n):
        r = random.Random(f"C02-{ctx.seed}-par-{i}")
        prog = [["n", "Word", "01"], ["w", "Word", "ab"], ["X", "copy", r.choice(["n", "w"])]]
        if r.random() < 0.6:
            prog.append(["_", "condition", "X", False])
        else:
            prog.append(["_", "action", "X", r.choice([["failP"], ["const", "K"], ["drop"]])])
        shape = r.choice(["stop", "stop", "notany", "followed", "skipto", "or"])
        any_ = ["a", "|", "n", "w"]
        prog.append(any_)
        if shape == "stop":
            prog += [["z", "ZeroOrMore", "a", "X"], ["g", "Group", "z"], ["root", "|", "X", "g"]]
        elif shape == "notany":
            prog += [["f", "~", "X"], ["s", "+", "f", "a"], ["root", "|", "X", "s"]]
        elif shape == "followed":
            prog += [["f", "FollowedBy", "X"], ["s", "+", "f", "a"], ["root", "|", "X", "s"]]
        elif shape == "skipto":
            prog += [["k", "SkipTo", "X", {"include": r.random() < 0.5, "fail_on": None, "ignore": None}], ["root", "|", "X", "k"]]
        else:
            prog += [["s", "+", "a", "a"], ["o", "^", "X", "s"], ["root", "|", "X", "o"]]
        if r.random() < 0.4:
            prog.append(["rr", "OneOrMore", "root"])
            root = "rr"
        else:
            root = "root"
        jobs.append(dict(prog=prog, root=root, inputs=["42 7", "01 10", "ab 01", "a b", "7", "ab", "0 a 1 b", " 1"]))
    return jobs


def indented_job(seed):
    """IndentedBlock builds its working sub-expressions afresh inside every parseImpl call (and drops them on return):
    element objects that come and go while one cache is live"""
    pp = common.import_pyparsing()
    r = random.Random(seed)
    stmt_kind = r.choice(["words", "alt", "seq"])
    rec, grp = r.random() < 0.7, r.random() < 0.6

    def mk():
        stmt = {"words": lambda: pp.Word(pp.alphas)[1, ...], "alt": lambda: pp.Word(pp.alphas) | pp.Word(pp.nums),
                "seq": lambda: pp.Word(pp.alphas) + pp.Opt(pp.Literal(":"))}[stmt_kind]()
        return pp.IndentedBlock(stmt, recursive=rec, grouped=grp)
    n, bad = 0, []
    for k in range(6):
        lines, indent = [], r.choice([0, 1, 2])
        for _ in range(r.randint(1, 6)):
            indent = max(0, indent + r.choice([-2, -1, 0, 0, 1, 2]))
            lines.append(" " * indent + r.choice(["a", "b", "12", "x y", "c:", "7"]))
        s = "\n".join(lines) + r.choice(["", "\n"])
        for entry, opts in [("parse", ()), ("parseAll", ()), ("scan", (100, False, False))]:
            base = None
            for mode in [("none",), ("packrat", 128), ("packrat", None)]:
                g = mk()
                corr_parse.set_mode(pp, mode)
                try:
                    o = common.with_alarm_retry(corr_parse.CASE_TIMEOUT, full_outcome, pp, g, entry, s, opts, False)
                except common.CaseTimeout:
                    o = ["hang"]
                finally:
                    pp.ParserElement.disable_memoization()
                n += 1
                if mode == ("none",):
                    base = o
                    if o[0] in ("hang", "internal"):
                        break
                elif o != base and o != ["hang"]:
                    bad.append({"prog": [["IndentedBlock", stmt_kind, rec, grp]], "root": "indented", "indented_seed": seed, "input": s,
                                "entry": entry, "opts": list(opts), "mode": list(mode), "expected": base, "actual": o})
                    break
    return n, bad, 0


def run_oracle(ctx, stream, jobs, job_fn=None, what="packrat changes an outcome",
               theorem="PP.Parse.packrat_transparent / message+aliasing oracle"):
    res = common.pmap(job_fn or oracle_job, jobs)
    n = sum(r[0] for r in res)
    fails = sum(r[2] for r in res)
    bad = [m for r in res for m in r[1]]
    ctx.count_cases(stream, n, distinct_keys=[json.dumps([j["prog"], s]) for j in jobs for s in j["inputs"]][: n],
                    outcomes={"calls": n, "base-raised": fails, "mismatch": len(bad)},
                    samples=[{"prog": jobs[0]["prog"], "root": jobs[0]["root"], "input": jobs[0]["inputs"][0]}] if jobs else [])
    for m in bad[:3]:
        ctx.fail_input(what, {k: m[k] for k in ("prog", "root", "input", "entry", "opts", "mutate", "mode", "history") if k in m},
                       m["expected"], m["actual"], theorem=theorem,
                       how="build prog with harness.gram.build, enable_packrat(mode[1]) vs disable_memoization()")
    return bad


def run_zoo(ctx, zseeds):
    res = common.pmap(zoo_packrat_job, zseeds)
    n = sum(r[0] for r in res)
    bad = [m for r in res for m in r[1]]
    ctx.count_cases("oracle:zoo-packrat", n, distinct_keys=zseeds[: max(1, n)], outcomes={"calls": n, "mismatch": len(bad)},
                    samples=[{"zoo_seed": zseeds[0]}] if zseeds else [])
    for m in bad[:3]:
        ctx.fail_input("packrat changes an outcome (element classes outside the parse model)",
                       {k: m[k] for k in ("prog", "root", "zoo_seed", "input", "entry", "opts", "mode")}, m["expected"], m["actual"],
                       theorem="C02 statement (oracle only: the exported zoo is outside PP.Parse.packrat_transparent)",
                       how="harness.props.c02.zoo_packrat_job(zoo_seed)")
    return bad


def run(ctx):
    common.import_pyparsing()
    ctx.proof_leg("PPProofs.Props.C02", THEOREMS)
    ctx.rule.append(
        "grammar programs from harness/gen.py (pool with sharing, common-prefix alternatives, Forwards, actions incl. "
        "in-place append, custom names, whitespace variants, ignorables) x inputs sampled from the grammar + mutations + "
        "random; a second sharing-heavy stream (2 leaves, reuse 0.92, names) aimed at repeated failures of one element at "
        "one location; nullable repetition bodies filtered (outside the quantifier); non-trivial = distinct (program,input)"
    )
    # ---- corpus (registered witnesses, e.g. the fixed message defect) runs first ----------------
    cj = corpus_jobs()
    if cj:
        run_oracle(ctx, "corpus", cj)
    # ---- (a) model vs real, memoization off -------------------------------------------------------
    ng = ctx.budget(700, 6000)
    jobs = []
    for i in range(ng):
        rng = random.Random(f"C02-{ctx.seed}-corr-{i}")
        prog, root, inputs = gen.gen_case(rng, gen.Cfg(), 5)
        jobs.append(dict(prog=prog, root=root, inputs=inputs, entries=ENTRIES, modes=[("none",)]))
    corr_parse.run_jobs(ctx, "model-vs-real:none", jobs)
    # ---- (b) real packrat (every size) vs the model (theorem instance) ---------------------------
    jobs_b = [dict(j, modes=MODES, entries=ENTRIES[:3]) for j in jobs[: ctx.budget(250, 2500)]]
    corr_parse.run_jobs(ctx, "model-vs-real:packrat", jobs_b)
    # ---- oracle on the real code -------------------------------------------------------------------
    mult = 1
    if ctx.broken and not ctx.fail_inputs:
        mult = 5  # something no longer checks: search harder for a concrete failing input
    run_oracle(ctx, "oracle:general", gen_jobs(ctx, "og", ctx.budget(350, 3500) * mult, {}, 5))
    run_oracle(ctx, "oracle:name-backtrack", name_backtrack_jobs(ctx, ctx.budget(400, 4000) * mult))
    from . import c03
    # the memo-aliasing templates of C03 (names through a shared entry, messages rewritten by set_name'd wrappers /
    # MatchFirst, trial parses observed by a call_during_try condition) are hazards of the packrat cache as well
    run_oracle(ctx, "oracle:aliasing-templates", c03.template_jobs(ctx, ctx.budget(450, 4500) * mult))
    zseeds = [f"C02-{ctx.seed}-zoo-{i}" for i in range(ctx.budget(1200, 12000) * mult)]
    run_zoo(ctx, zseeds)
    run_oracle(ctx, "oracle:probe-after-real", probe_after_real_jobs(ctx, ctx.budget(300, 3000) * mult))
    iseeds = [f"C02-{ctx.seed}-ind-{i}" for i in range(ctx.budget(150, 1500) * mult)]
    res = common.pmap(indented_job, iseeds)
    badi = [m for r_ in res for m in r_[1]]
    ctx.count_cases("oracle:indented-block", sum(r_[0] for r_ in res), outcomes={"mismatch": len(badi)}, samples=[{"indented_seed": iseeds[0]}])
    for m in badi[:2]:
        ctx.fail_input("packrat changes an outcome (IndentedBlock: elements created during the parse)",
                       {k: m[k] for k in ("prog", "root", "indented_seed", "input", "entry", "opts", "mode")}, m["expected"], m["actual"],
                       theorem="C02 statement (oracle only)", how="harness.props.c02.indented_job(indented_seed)")
    run_oracle(ctx, "oracle:trial-vs-real-key", trykey_jobs(ctx, ctx.budget(300, 3000) * mult))
    run_oracle(ctx, "oracle:preparse-key", prekey_jobs(ctx, ctx.budget(300, 3000) * mult))
    run_oracle(ctx, "oracle:stale-cache-history", stale_jobs(ctx, ctx.budget(60, 600) * mult), job_fn=stale_job)
    run_oracle(ctx, "oracle:names", gen_jobs(ctx, "on", ctx.budget(700, 7000) * mult, dict(names=0.45, p_reuse=0.7), 5))
    run_oracle(ctx, "oracle:sharing", gen_jobs(ctx, "os", ctx.budget(700, 7000) * mult, SHARING, 4, ["c", "a c", "ab c", " c"]))
    ctx.assumptions.append("C02: exception messages and aliasing are decided by the real-code oracle, not by a theorem; "
                           "element classes outside the parse model are covered by the oracle only")


def replay(data):
    if data.get("replay_kind") == "failing-input":
        c = data["case"]
        if c.get("indented_seed"):
            return bool(indented_job(c["indented_seed"])[1])
        if c.get("zoo_seed"):
            return bool(zoo_packrat_job(c["zoo_seed"])[1])
        if c.get("history"):
            return bool(stale_job(dict(prog=c["prog"], root=c["root"], inputs=[c["input"]], leaf=c["history"]["leaf"], entry=c["entry"]))[1])
        n, bad, _ = oracle_job(dict(prog=c["prog"], root=c["root"], inputs=[c["input"]]))
        return bool(bad)
    ctx = common.Ctx("C02", "quick", data.get("seed", 0))
    run(ctx)
    return bool(ctx.broken or ctx.fail_inputs)
