"""C20 — railroad diagram generation terminates and is referentially intact.

proof:           lean/PPProofs/Props/C20.lean over the model lean/PPModel/Mod/Diagram.lean
                 (`_to_diagram_element`, ConverterState, mark_for_extraction, extract_into_diagram, to_railroad)
correspondence:  random grammar programs (built with the real public API, streamlined like create_diagram does)
                 -> node table of the real element graph -> Lean model (driver `diagram`) vs the real converter
                 running over the structural railroad stand-in (harness/railroad_stub/railroad.py); compared:
                 diagram names, order, indices, complete constructor trees (terminals, link targets, placeholders)
                 for random options (vertical, show_results_names, show_groups, show_hidden)
search (oracle): the clauses of the statement executed on the real output: no RecursionError / exception,
                 non-empty list, root first, bookmarks distinct, link targets among the bookmarks, no None/""
                 item, every visible token element drawn, railroad_to_html / create_diagram give a str holding
                 every bookmark.  Generators stay out of the registered known-finding regions.
"""
from __future__ import annotations

import importlib.util
import io
import json
import sys
from pathlib import Path

from .. import common
from ..sexp import Sym, line as sx

META = dict(
    text="Lean theorems (PPProofs/Props/C20.lean) about a statement-level model of the converter's bookkeeping "
         "(PPModel/Mod/Diagram.lean: id-keyed ConverterState, name propagation through unnamed Forward/Located, "
         "placeholders, mark_for_extraction, extract_into_diagram, de-duplication, ordering; mutable partial tree "
         "as a heap). Full strength on the model: bookmarks_distinct (all grammars, all options, all fuel), "
         "output_sorted, unnamed_never_extracted, diverges_unnamed_cycle (for EVERY fuel the minimal unnamed "
         "recursive grammar does not terminate - the termination clause of C20 is false of the current code, "
         "registered finding diagram_unnamed_cycle), empty_placeholder_witness / dangling_link_witness / "
         "unnamed_forward_root_witness / root_not_first_witness (the other clauses "
         "fail on concrete grammars, registered findings). Partial: terminates_partial (termination with the "
         "explicit recursion-depth bound |g|(R+3)+R+2 only for grammars in which every cycle passes through a "
         "custom-named, extraction-worthy node - stated with a rank function, read by ranked_cycle_has_cut; the "
         "full statement also covers unnamed cycles, where it is false - diverges_of_unnamed_loop proves "
         "non-termination for EVERY grammar whose root lies on a cycle of unnamed elements). "
         "links_resolve_partial (PPProofs/Props/C20Links.lean): for ALL grammars in which no element has the custom "
         "name '...' (the registered dangling-link shape, decidable predicate noEllipsisName on the node table), all "
         "options, all roots and every fuel at which the model returns, every NonTerminal of every returned diagram "
         "names a returned diagram - proved by an invariant over the whole conversion (every NonTerminal carries the "
         "custom name of an extracted or pending element; a returning call leaves no new pending element); partial "
         "only in that hypothesis, which dangling_link_witness shows is needed. root_first_partial: for ALL grammars, "
         "options and returning fuels, if the root is custom-named and worth extracting, shown, and its custom name "
         "is carried by no other element and is not '...' (decidable rootFirstHyp), the output is non-empty and its "
         "first diagram is the root's (invariant: the root is registered exactly once with index 1, every other "
         "element gets an index >= 2, diagram keys are distinct); partial: unnamed roots off every cycle and "
         "custom-named roots with only leaf children are first too but are not covered; the two registered "
         "root witnesses violate the hypothesis. no_empty_placeholder_partial: for ALL grammars in which every "
         "element draws something (decidable drawsAll: shown, children exist, dispatch creates a partial, a one-item "
         "wrapper has a child - excludes the registered Opt(Empty()) shape), all options and returning fuels, every "
         "EditablePartial of the final converter state has all item/items slots filled with references (conv_HS: a "
         "returning call returns an item, never loses a reference, leaves its partials filled); "
         "no_empty_placeholder_tree_partial adds, under the same hypothesis: every kept diagram entry's content is a "
         "reference (conv_KD: an element is extracted only after its own conversion is complete, when its partial is "
         "filled) and NO returned tree contains the '' placeholder (Tree.hasEmptyStr, the Optional('') of the "
         "finding). Still partial: noEmptyPlaceholder of the resolved trees also forbids rawNone, which on a filled "
         "heap can only come from resolve's fuel |heap|+1 running out or a dangling reference - no_dangling_reference (FULL strength: all "
         "grammars, options, roots, fuels) proves that every reference in a partial and every kept diagram content "
         "points into the heap, so only the fuel bound (acyclicity of the partial heap) is not proved; "
         "no_empty_placeholder_of_acyclic_partial derives the tree-level clause noEmptyPlaceholder from exactly that "
         "missing fact, stated as a decidable check (heapAcyclicB) of the final converter state. "
         "tokens_covered and the tree-level no_empty_placeholder are NOT proved in "
         "general: they are decided by the oracle on the real code over generated grammars and by the "
         "model-vs-code correspondence.",
    note="Trusted: Lean kernel; axioms propext/Classical.choice/Quot.sound; the transcription of "
         "pyparsing/diagram/__init__.py into PPModel/Mod/Diagram.lean (checked differentially on every run, full "
         "constructor trees); the structural stand-in for the absent railroad-diagrams package "
         "(harness/railroad_stub/railroad.py: constructor signatures only, no rendering); _make_bookmark is "
         "represented by its argument (injectivity is oracle-checked); the stop_on rewriting of "
         "OneOrMore/ZeroOrMore and jinja2 rendering are oracle-checked only.",
    technique="Lean 4 proof over a transcribed converter model + differential correspondence over a railroad stub",
    design="§5 C20",
)

THEOREMS = [
    "PP.Diagram.bookmarks_distinct",
    "PP.Diagram.output_sorted",
    "PP.Diagram.unnamed_never_extracted",
    "PP.Diagram.diverges_of_unnamed_loop",
    "PP.Diagram.diverges_unnamed_cycle",
    "PP.Diagram.ranked_cycle_has_cut",
    "PP.Diagram.terminates_partial",
    "PP.Diagram.empty_placeholder_witness",
    "PP.Diagram.dangling_link_witness",
    "PP.Diagram.unnamed_forward_root_witness",
    "PP.Diagram.root_not_first_witness",
    "PP.Diagram.named_cycle_ok",
    "PP.Diagram.links_resolve_partial",
    "PP.Diagram.root_first_partial",
    "PP.Diagram.root_first_unnamed_partial",
    "PP.Diagram.no_empty_placeholder_partial",
    "PP.Diagram.no_empty_placeholder_output_partial",
    "PP.Diagram.no_empty_placeholder_tree_partial",
    "PP.Diagram.no_dangling_reference",
    "PP.Diagram.no_empty_placeholder_of_acyclic_partial",
    "PP.Diagram.conv_HS",
    "PP.Diagram.conv_KD",
    "PP.Diagram.conv_step",
]

STUB_DIR = Path(__file__).resolve().parent.parent / "railroad_stub"
_D = None


def load_diagram():
    """import pyparsing.diagram from the working tree with the railroad stand-in injected"""
    global _D
    if _D is not None:
        return _D
    pp = common.import_pyparsing()
    spec = importlib.util.spec_from_file_location("railroad", STUB_DIR / "railroad.py")
    stub = importlib.util.module_from_spec(spec)
    spec.loader.exec_module(stub)
    sys.modules["railroad"] = stub
    for m in [m for m in sys.modules if m == "pyparsing.diagram" or m.startswith("pyparsing.diagram.")]:
        del sys.modules[m]
    import pyparsing.diagram as D  # noqa

    assert getattr(D.railroad, "STUB", False)
    assert Path(D.__file__).resolve().parent.parent == Path(pp.__file__).resolve().parent
    _D = (pp, D, stub)
    return _D


# --------------------------------------------------------------------------------------------
# grammar programs (json-able; executed with the real public API)
# --------------------------------------------------------------------------------------------
def build(pp, prog):
    env = []
    for st in prog:
        op = st[0]
        if op == "word":
            e = pp.Word(st[1])
        elif op == "lit":
            e = pp.Literal(st[1])
        elif op == "kw":
            e = pp.Keyword(st[1])
        elif op == "regex":
            e = pp.Regex(st[1])
        elif op == "empty":
            e = pp.Empty()
        elif op == "tag":
            e = pp.Tag(st[1])
        elif op == "strend":
            e = pp.StringEnd()
        elif op == "linestart":
            e = pp.LineStart()
        elif op == "qs":
            e = pp.QuotedString(st[1])
        elif op == "notin":
            e = pp.CharsNotIn(st[1])
        elif op == "and":
            e = pp.And([env[i] for i in st[1]])
        elif op == "plus":
            e = env[st[1]] + env[st[2]]
        elif op == "minus":
            e = env[st[1]] - env[st[2]]
        elif op == "mf":
            e = pp.MatchFirst([env[i] for i in st[1]])
        elif op == "or":
            e = pp.Or([env[i] for i in st[1]])
        elif op == "each":
            e = pp.Each([env[i] for i in st[1]])
        elif op == "opt":
            e = pp.Opt(env[st[1]])
        elif op == "zom":
            e = pp.ZeroOrMore(env[st[1]])
        elif op == "oom":
            e = pp.OneOrMore(env[st[1]])
        elif op == "zom_stop":
            e = pp.ZeroOrMore(env[st[1]], stop_on=env[st[2]])
        elif op == "oom_stop":
            e = pp.OneOrMore(env[st[1]], stop_on=env[st[2]])
        elif op == "mul":
            e = env[st[1]] * st[2]
        elif op == "group":
            e = pp.Group(env[st[1]])
        elif op == "suppress":
            e = pp.Suppress(env[st[1]])
        elif op == "combine":
            e = pp.Combine(env[st[1]])
        elif op == "dict":
            e = pp.Dict(env[st[1]])
        elif op == "not":
            e = pp.NotAny(env[st[1]])
        elif op == "fb":
            e = pp.FollowedBy(env[st[1]])
        elif op == "pb":
            e = pp.PrecededBy(pp.Literal(st[1]))
        elif op == "located":
            e = pp.Located(env[st[1]])
        elif op == "skipto":
            e = pp.SkipTo(env[st[1]])
        elif op == "atline":
            e = pp.AtLineStart(env[st[1]])
        elif op == "delim":
            e = pp.DelimitedList(env[st[1]])
        elif op == "ellipsis":  # a + ... + b
            e = env[st[1]] + ... + env[st[2]]
        elif op == "infix":
            e = pp.infix_notation(env[st[1]], [("-", 1, pp.OpAssoc.RIGHT), ("*", 2, pp.OpAssoc.LEFT),
                                               ("+", 2, pp.OpAssoc.LEFT)])
        elif op == "nested":
            e = pp.nested_expr()
        elif op == "common":
            e = getattr(pp.pyparsing_common, st[1])
        elif op == "fwd":
            e = pp.Forward()
        elif op == "assign":
            env[st[1]] <<= env[st[2]]
            e = env[st[1]]
        elif op == "name":
            e = env[st[1]].set_name(st[2])
        elif op == "rname":
            e = env[st[1]].set_results_name(st[2], list_all_matches=bool(st[3]))
        else:
            raise ValueError(f"unknown op {op}")
        env.append(e)
    return env


INTEREST = ["And", "Or", "MatchFirst", "Each", "NotAny", "FollowedBy", "PrecededBy", "Group", "TokenConverter",
            "Opt", "OneOrMore", "ZeroOrMore", "Empty", "ParseElementEnhance", "Regex", "Forward", "Located",
            "PositionToken", "_ErrorStop"]


def _classes(pp):
    d = {n: getattr(pp, n) for n in INTEREST if n != "_ErrorStop"}
    d["_ErrorStop"] = pp.And._ErrorStop
    return d


def table_of(pp, D, root):
    """the facts the converter reads from the element graph, keyed by discovery order (stands for id())"""
    cl = _classes(pp)
    ids, order, stack = {}, [], [root]
    while stack:
        e = stack.pop()
        if id(e) in ids:
            continue
        ids[id(e)] = len(order)
        order.append(e)
        stack.extend(reversed(e.recurse()))
    nodes, has_stop = [], False
    for e in order:
        if isinstance(e, (pp.OneOrMore, pp.ZeroOrMore)) and getattr(e, "not_ender", None) is not None:
            has_stop = True
        term = D._collapse_verbose_regex(e.pattern) if isinstance(e, pp.Regex) else e.defaultName
        nodes.append(dict(
            cls=[n for n in INTEREST if isinstance(e, cl[n])],
            tname=type(e).__name__,
            kids=[ids[id(k)] for k in e.recurse()],
            custom=e.customName,
            rname=e.resultsName,
            modal=bool(e.modalResults),
            shown=bool(e.show_in_diagram),
            dname=e.defaultName,
            term=term,
        ))
    return nodes, order, has_stop


def _opt(v):
    return Sym("None") if v is None else v


def rank_of(nodes):
    """a rank function for `Ranked` (longest path that never enters a cut element), or None if there is an
    uncut cycle.  cut = truthy custom name and worth extracting (some child has children)."""
    n = len(nodes)
    worth = [any(nodes[c]["kids"] for c in nd["kids"]) for nd in nodes]
    cut = [bool(nd["custom"]) and worth[u] for u, nd in enumerate(nodes)]
    rank, state = [0] * n, [0] * n

    def go(u):
        if state[u] == 2:
            return True
        if state[u] == 1:
            return False
        state[u] = 1
        r = 0
        for c in nodes[u]["kids"]:
            if cut[c]:
                continue
            if not go(c):
                return False
            r = max(r, rank[c] + 1)
        rank[u] = r
        state[u] = 2
        return True

    sys.setrecursionlimit(max(sys.getrecursionlimit(), 5000))
    for u in range(n):
        if not go(u):
            return None
    return rank


def ranked_line(nodes, rank):
    items = [Sym("diagram-ranked"), list(rank)]
    for n in nodes:
        items.append([[Sym(c) for c in n["cls"]], n["tname"], n["kids"], _opt(n["custom"]), _opt(n["rname"]),
                      n["modal"], n["shown"], n["dname"], n["term"]])
    return sx(*items)


def model_line(nodes, opts, fuel=400):
    items = [Sym("diagram"),
             [_opt(opts["vertical"]), bool(opts["names"]), bool(opts["groups"]), bool(opts["hidden"])],
             fuel, 0]
    for n in nodes:
        items.append([[Sym(c) for c in n["cls"]], n["tname"], n["kids"], _opt(n["custom"]), _opt(n["rname"]),
                      n["modal"], n["shown"], n["dname"], n["term"]])
    return sx(*items)


# --------------------------------------------------------------------------------------------
# the real converter
# --------------------------------------------------------------------------------------------
def convert(pp, D, root, opts):
    """streamline (as create_diagram does) and run the real to_railroad; ('ok', diagrams) | ('hang',) | ('exc', name)"""
    old = sys.getrecursionlimit()
    sys.setrecursionlimit(1200)
    try:
        ds = common.with_alarm(20, D.to_railroad, root, vertical=opts["vertical"],
                               show_results_names=opts["names"], show_groups=opts["groups"],
                               show_hidden=opts["hidden"])
        return ("ok", ds)
    except RecursionError:
        return ("hang",)
    except common.CaseTimeout:
        return ("hang",)
    except Exception as ex:  # noqa
        return ("exc", type(ex).__name__ + ": " + str(ex)[:100])
    finally:
        sys.setrecursionlimit(old)


def canon_tree(D, stub, x, inv):
    if x is None:
        return Sym("None")
    if isinstance(x, str):
        return x
    if not isinstance(x, stub.DiagramItem):
        return [Sym("Foreign"), type(x).__name__]
    k = type(x).__name__
    if isinstance(x, stub.NonTerminal):
        return [Sym("NonTerminal"), x.text, _opt(inv.get((x.href or "")[1:]))]
    if isinstance(x, stub.Terminal):
        return [Sym("Terminal"), x.text]
    sub = [canon_tree(D, stub, v, inv) for _, v in x.slots()]
    if isinstance(x, D.EachItem):
        return [Sym("EachItem"), _opt(x.label)] + sub
    if isinstance(x, D.AnnotatedItem):
        return [Sym("AnnotatedItem"), _opt(x.label)] + sub
    if isinstance(x, stub.Group):
        return [Sym("Group"), _opt(x.label)] + sub
    if isinstance(x, stub.Choice):
        return [Sym("Choice"), x.default] + sub
    if isinstance(x, stub.OneOrMore):
        return [Sym("OneOrMore"), _opt(x.rep)] + sub
    return [Sym(k)] + sub


def canon_result(D, stub, res):
    if res[0] == "hang":
        return "hang"
    if res[0] == "exc":
        return "internal " + res[1]
    inv = {v: k for k, v in D._bookmark_lookup.items()}
    return sx([Sym("ok")] + [[_opt(d.name), d.index, canon_tree(D, stub, d.diagram, inv)] for d in res[1]])


# --------------------------------------------------------------------------------------------
# oracle: the clauses of the statement on the real output
# --------------------------------------------------------------------------------------------
def visible_leaves(pp, root, show_hidden):
    """token elements that the statement wants drawn: reachable without passing a hidden element"""
    out, seen, stack = [], set(), [root]
    while stack:
        e = stack.pop()
        if id(e) in seen:
            continue
        seen.add(id(e))
        if not e.show_in_diagram and not show_hidden:
            continue
        kids = e.recurse()
        if not kids:
            if isinstance(e, pp.Empty) and not e.customName:
                continue
            if isinstance(e, pp.Forward):
                continue
            out.append(e)
        stack.extend(kids)
    return out


def walk(stub, x, f):
    f(x)
    if isinstance(x, stub.DiagramItem):
        for _, v in x.slots():
            walk(stub, v, f)


def oracle(pp, D, stub, root, opts, res):
    """list of (clause, detail) the real output violates"""
    if res[0] == "hang":
        return [("terminates", "RecursionError / no termination")]
    if res[0] == "exc":
        return [("terminates", "exception " + res[1])]
    ds = res[1]
    probs = []
    if not isinstance(ds, list) or not ds:
        return [("root_first", "to_railroad returned no diagram at all")]
    for d in ds:
        if not isinstance(d.name, str):
            probs.append(("named", f"diagram name {d.name!r} is not a string"))
    want_root = root.customName if root.customName else ""
    want = {want_root}
    if isinstance(root, (pp.OneOrMore, pp.ZeroOrMore)) and getattr(root, "not_ender", None) is not None:
        want.add(root.name)  # a stop_on repetition is drawn through a rewritten element that carries its name
    idx = [d.index for d in ds]
    if idx != sorted(idx) or ds[0].name not in want:
        probs.append(("root_first", f"first diagram is {ds[0].name!r}, root is {want_root!r}; indices {idx}"))
    bms = [d.bookmark for d in ds]
    if len(set(bms)) != len(bms):
        probs.append(("bookmarks_distinct", f"bookmarks {bms}"))
    texts = set()
    for d in ds:
        if not isinstance(d.diagram, stub.Diagram):
            probs.append(("no_empty_placeholder", f"diagram {d.name!r} is {type(d.diagram).__name__}"))
            continue

        def f(x, d=d):
            if isinstance(x, stub.NonTerminal):
                if not (isinstance(x.href, str) and x.href[:1] == "#" and x.href[1:] in bms):
                    probs.append(("links_resolve", f"link {x.text!r} -> {x.href!r} in diagram {d.name!r}; "
                                                   f"bookmarks {bms}"))
            elif isinstance(x, stub.Terminal):
                texts.add(x.text)
            elif not isinstance(x, stub.DiagramItem):
                probs.append(("no_empty_placeholder", f"item {x!r} in diagram {d.name!r}"))
            elif isinstance(x, stub.DiagramMultiContainer) and not x.items:
                probs.append(("no_empty_placeholder", f"{type(x).__name__} without items in diagram {d.name!r}"))

        walk(stub, d.diagram, f)
    for e in visible_leaves(pp, root, opts["hidden"]):
        t = D._collapse_verbose_regex(e.pattern) if isinstance(e, pp.Regex) else e.defaultName
        if t not in texts:
            probs.append(("tokens_covered", f"token element {t!r} (custom name {e.customName!r}) is in no diagram"))
    try:
        html = D.railroad_to_html(ds)
        if not isinstance(html, str):
            probs.append(("html", f"railroad_to_html returned {type(html).__name__}"))
        else:
            for b in bms:
                if f'id="{b}"' not in html:
                    probs.append(("html", f"bookmark {b} missing from the HTML"))
    except Exception as ex:  # noqa
        probs.append(("html", f"railroad_to_html raised {type(ex).__name__}: {ex}"))
    # de-duplicate
    out, seen = [], set()
    for p in probs:
        if p not in seen:
            seen.add(p)
            out.append(p)
    return out


def oracle_create_diagram(pp, root, opts):
    buf = io.StringIO()
    try:
        root.create_diagram(buf, vertical=opts["vertical"], show_results_names=opts["names"],
                            show_groups=opts["groups"], show_hidden=opts["hidden"])
    except RecursionError:
        return [("terminates", "create_diagram: RecursionError")]
    except Exception as ex:  # noqa
        return [("html", f"create_diagram raised {type(ex).__name__}: {ex}")]
    s = buf.getvalue()
    if "railroad-group" not in s:
        return [("html", "create_diagram wrote no diagram")]
    return []


# --------------------------------------------------------------------------------------------
# regions of the registered known findings (static analysis of the node table)
# --------------------------------------------------------------------------------------------
def _truthy(s):
    return bool(s)


def regions(nodes, opts, has_stop=False):
    """set of known-finding signatures whose region the grammar is in"""
    reg = set()
    n = len(nodes)
    kids = [nd["kids"] for nd in nodes]
    passthru = [(not _truthy(nd["custom"])) and ("Forward" in nd["cls"] or "Located" in nd["cls"]) and nd["kids"]
                for nd in nodes]
    # cut nodes: custom-named (stop_on repetitions are never registered under their own id)
    cut = [_truthy(nd["custom"]) for nd in nodes]
    # unnamed cycle: a cycle in the graph without the cut nodes
    color = [0] * n

    def dfs(u):
        color[u] = 1
        for v in kids[u]:
            if cut[v]:
                continue
            if color[v] == 1:
                return True
            if color[v] == 0 and dfs(v):
                return True
        color[u] = 2
        return False

    for u in range(n):
        if color[u] == 0 and not cut[u] and dfs(u):
            reg.add("diagram_unnamed_cycle")
            break
    if has_stop:
        reg.add("stop_on")
    # draws nothing
    memo = {}

    def nothing(u, depth=0):
        if u in memo:
            return memo[u]
        nd = nodes[u]
        memo[u] = False
        r = False
        if passthru[u]:
            r = nothing(nd["kids"][0], depth + 1)
        elif not nd["shown"] and not opts["hidden"]:
            r = True
        elif "Empty" in nd["cls"] and not _truthy(nd["custom"]):
            r = True
        elif ("And" in nd["cls"] or "Or" in nd["cls"] or "MatchFirst" in nd["cls"] or "Each" in nd["cls"]) \
                and not nd["kids"]:
            r = True
        memo[u] = r
        return r

    def placeholder(nd):
        """initial placeholder of the partial created for the element (mirrors the isinstance chain)"""
        c = nd["cls"]
        if "And" in c:
            same = len(nd["kids"]) > 2 and len({(nodes[k]["custom"] if nodes[k]["custom"] is not None
                                                  else nodes[k]["dname"], nodes[k]["rname"])
                                                 for k in nd["kids"]}) == 1
            return "empty" if same else "items"
        if "Or" in c or "MatchFirst" in c or "Each" in c:
            return "items"
        if "NotAny" in c or "FollowedBy" in c or "PrecededBy" in c:
            return "empty"
        if "Group" in c:
            return "empty" if opts["groups"] else "none"
        if "TokenConverter" in c:
            return "items" if nd["tname"].lower() == "tokenconverter" else "empty"
        if "Opt" in c or "ZeroOrMore" in c:
            return "empty"
        if "OneOrMore" in c:
            return "none"
        if "ParseElementEnhance" in c:
            return "items"
        return "empty" if not _truthy(nd["rname"]) else "items"

    for u, nd in enumerate(nodes):
        if passthru[u] or not nd["kids"]:
            continue
        if not nd["shown"] and not opts["hidden"]:
            continue
        if all(nothing(k) for k in nd["kids"]) and (placeholder(nd) == "empty" or _truthy(nd["custom"]) or u == 0):
            reg.add("diagram_empty_placeholder")
    if nothing(0) or passthru[0]:
        reg.add("diagram_unnamed_forward_root")
    # unnamed root that can be reached again from itself
    if not _truthy(nodes[0]["custom"]) and not passthru[0]:
        seen, stack = set(), list(kids[0])
        while stack:
            v = stack.pop()
            if v in seen:
                continue
            seen.add(v)
            stack.extend(kids[v])
        if 0 in seen:
            reg.add("diagram_root_revisited")
    named = [u for u, nd in enumerate(nodes) if _truthy(nd["custom"])]
    if any(nodes[u]["custom"] == "..." for u in named):
        reg.add("diagram_dangling_skipto")
    fp_memo = {}

    def fp(u, path=()):
        if u in path:
            return ("cycle", path.index(u) - len(path))
        nd = nodes[u]
        return (nd["tname"], nd["custom"], nd["dname"], tuple(fp(k, path + (u,)) for k in nd["kids"]))

    byname = {}
    for u in named:
        byname.setdefault(nodes[u]["custom"], []).append(u)
    for nm, us in byname.items():
        if len(us) > 1 and len({fp(u) for u in us}) > 1:
            reg.add("diagram_same_name_merge")
    # the root's name must be its own
    if _truthy(nodes[0]["custom"]) and len(byname.get(nodes[0]["custom"], [])) > 1:
        reg.add("diagram_same_name_merge")
    return reg


# --------------------------------------------------------------------------------------------
# generators
# --------------------------------------------------------------------------------------------
LEAVES = [["word", "ab"], ["word", "01"], ["lit", "x"], ["lit", "("], ["lit", ")"], ["kw", "if"],
          ["regex", "[a-c]+"], ["regex", "a  # first\n b"], ["strend"], ["linestart"], ["qs", '"'],
          ["notin", ",;"], ["lit", ","]]
NOTHING = [["empty"], ["tag", "t"]]
SINGLE = ["opt", "zom", "oom", "group", "suppress", "combine", "dict", "not", "fb", "located", "skipto",
          "atline", "delim"]
MULTI = ["and", "and", "mf", "mf", "or", "each", "plus", "minus"]


def gen_prog(rng, safe, size):
    """random grammar program; `safe` keeps out of the known-finding regions by construction"""
    prog = []
    name_ctr = [0]
    is_nothing, is_fwd, named, is_stop = {}, {}, {}, {}

    def add(st, nothing=False, fwd=False):
        prog.append(st)
        k = len(prog) - 1
        is_nothing[k] = nothing
        is_fwd[k] = fwd
        named[k] = False
        is_stop[k] = st[0] in ("zom_stop", "oom_stop")
        return k

    used = set()

    def fresh_name():
        # distinct strings, some of which differ only in case / punctuation (bookmark normalisation)
        name_ctr[0] += 1
        if not safe and rng.random() < 0.15:
            return rng.choice(["n1", "n2", "..."])
        for _ in range(8):
            k = rng.randint(1, 4)
            nm = rng.choice([f"n{k}", f"N{k}", f"n {k}", f"n-{k}", f"n.{k}", f"{k}n", f"stmt {k}"])
            if nm not in used:
                used.add(nm)
                return nm
        nm = f"name{name_ctr[0]}"
        used.add(nm)
        return nm

    fwds = [add(["fwd"], fwd=True) for _ in range(rng.choice([0, 0, 1, 1, 2]))]
    pool = [add(list(rng.choice(LEAVES))) for _ in range(rng.randint(2, 4))]
    nothings = [add(list(rng.choice(NOTHING)), nothing=True) for _ in range(rng.choice([0, 1, 1]))]
    comps = []

    def pick(allow_nothing):
        cands = pool + fwds + comps + ((nothings if allow_nothing else []))
        if comps and rng.random() < 0.5:
            return rng.choice(comps[-3:])
        return rng.choice(cands)

    for _ in range(size):
        r = rng.random()
        if r < 0.45:
            op = rng.choice(MULTI)
            if op in ("plus", "minus"):
                k = add([op, pick(True), pick(True)])
            else:
                m = rng.choice([1, 2, 2, 3, 3, 4])
                k = add([op, [pick(True) for _ in range(m)]])
        elif r < 0.85:
            op = rng.choice(SINGLE)
            k = add([op, pick(not safe)])
        elif r < 0.90:
            k = add(["mul", pick(not safe), rng.choice([2, 3, 4])])
        elif r < 0.93:
            k = add(["pb", "x"])
        elif r < 0.97 and not safe:
            k = add([rng.choice(["zom_stop", "oom_stop"]), pick(False), rng.choice(pool)])
        else:
            k = add(list(rng.choice(LEAVES)))
        if rng.random() < 0.25:
            k = add(["rname", k, rng.choice(["r1", "r2", "key"]), rng.random() < 0.3])
        if rng.random() < 0.3:
            add(["name", k, fresh_name()])
            named[k] = True
        comps.append(k)
    for f in fwds:
        cands = [c for c in comps if prog[c][0] not in ("fwd",)] or pool
        if not safe and rng.random() < 0.1:
            continue  # unassigned Forward
        body = rng.choice(cands)
        if safe and not named[body]:
            # every cycle through f passes through f.expr: name the body, or the Forward itself
            if rng.random() < 0.5 and not is_stop[body] and prog[body][0] not in ("fwd",):
                add(["name", body, fresh_name()])
                named[body] = True
            else:
                add(["name", f, fresh_name()])
                named[f] = True
        elif not safe and rng.random() < 0.4:
            add(["name", f, fresh_name()])
        add(["assign", f, body])
    roots = comps[-2:] + ([rng.choice(fwds)] if fwds and rng.random() < 0.4 else [])
    root = rng.choice(roots)
    if safe and prog[root][0] in ("fwd", "located") and not named[root]:
        add(["name", root, fresh_name()])
    return {"prog": prog, "root": root}


def gen_opts(rng):
    return {"vertical": rng.choice([None, 0, 1, 2, 3, 3, 5]), "names": rng.random() < 0.5,
            "groups": rng.random() < 0.4, "hidden": rng.random() < 0.3}


BATTERY = [
    # realistic shapes (DESIGN §5 C20): named recursion, shared sub-expressions, infix_notation, nested_expr, ...
    {"prog": [["fwd"], ["name", 0, "E"], ["word", "01"], ["lit", "("], ["lit", ")"], ["and", [3, 0, 4]],
              ["mf", [2, 5]], ["assign", 0, 6]], "root": 0},
    {"prog": [["word", "01"], ["name", 0, "num"], ["lit", "+"], ["and", [0, 2, 0]], ["group", 3],
              ["zom", 4], ["plus", 0, 5]], "root": 6},
    {"prog": [["word", "01"], ["infix", 0]], "root": 1},
    {"prog": [["nested"]], "root": 0},
    {"prog": [["word", "ab"], ["word", "01"], ["each", [0, 1]], ["located", 2], ["name", 3, "loc"],
              ["mul", 0, 3], ["plus", 4, 5]], "root": 6},
    {"prog": [["common", "ipv4_address"], ["common", "sci_real"], ["common", "identifier"], ["mf", [0, 1, 2]],
              ["delim", 3]], "root": 4},
    {"prog": [["word", "ab"], ["lit", "x"], ["oom_stop", 0, 1], ["plus", 2, 1]], "root": 3},
    {"prog": [["word", "ab"], ["tag", "t"], ["and", [0, 1]], ["empty"], ["mf", [2, 3]]], "root": 4},
    {"prog": [["fwd"], ["word", "01"], ["lit", "("], ["lit", ")"], ["and", [2, 0, 3]], ["mf", [1, 4]],
              ["name", 5, "atom"], ["assign", 0, 5], ["plus", 0, 0]], "root": 8},
]

OPTS0 = {"vertical": 3, "names": False, "groups": False, "hidden": False}


# --------------------------------------------------------------------------------------------
# known findings: witnesses (must fail on the real code in the recorded way)
# --------------------------------------------------------------------------------------------
WITNESS = {
    "diagram_unnamed_cycle": ({"prog": [["fwd"], ["word", "01"], ["lit", "("], ["lit", ")"], ["and", [2, 0, 3]],
                                        ["mf", [1, 4]], ["assign", 0, 5]], "root": 0}, "terminates"),
    "diagram_stop_on_cycle": ({"prog": [["fwd"], ["lit", "a"], ["mf", [0, 1]], ["lit", "x"], ["oom_stop", 2, 3],
                                        ["name", 4, "X"], ["lit", "("], ["lit", ")"], ["and", [6, 4, 7]],
                                        ["assign", 0, 8]], "root": 0}, "terminates"),
    "diagram_empty_placeholder": ({"prog": [["empty"], ["opt", 0], ["word", "01"], ["plus", 1, 2]], "root": 3},
                                  "no_empty_placeholder"),
    "diagram_dangling_skipto": ({"prog": [["word", "01"], ["lit", "y"], ["ellipsis", 0, 1]], "root": 2},
                                "links_resolve"),
    "diagram_unnamed_forward_root": ({"prog": [["fwd"], ["word", "01"], ["lit", "x"], ["plus", 1, 2],
                                               ["assign", 0, 3]], "root": 0}, "root_first"),
    "diagram_root_revisited": ({"prog": [["fwd"], ["name", 0, "E"], ["lit", "("], ["lit", ")"], ["and", [2, 0, 3]],
                                         ["word", "01"], ["mf", [5, 4]], ["assign", 0, 6]], "root": 4},
                               "root_first"),
    "diagram_same_name_merge": ({"prog": [["word", "a"], ["lit", "x"], ["plus", 0, 1], ["group", 2],
                                          ["name", 3, "n"], ["word", "b"], ["lit", "y"], ["plus", 5, 6],
                                          ["group", 7], ["name", 8, "n"], ["plus", 3, 8]], "root": 10},
                                "tokens_covered"),
}


def run_case(case, opts, want_model=True):
    """-> dict(nodes, has_stop, res, canon, probs)"""
    pp, D, stub = load_diagram()
    env = build(pp, case["prog"])
    root = env[case["root"]]
    root.streamline()
    nodes, order, has_stop = table_of(pp, D, root)
    res = convert(pp, D, root, opts)
    probs = oracle(pp, D, stub, root, opts, res)
    if res[0] == "ok" and not probs:
        probs += oracle_create_diagram(pp, root, opts)
    return dict(nodes=nodes, has_stop=has_stop, res=res, canon=canon_result(D, stub, res), probs=probs, root=root)


# grammars the Lean witness theorems speak about: regenerated from the live element graphs on every run
LEAN_GRAMMARS = {
    "gUnnamed": ("diagram_unnamed_cycle", None),
    "gEmptyOpt": ("diagram_empty_placeholder", None),
    "gSkip": ("diagram_dangling_skipto", None),
    "gFwdRoot": ("diagram_unnamed_forward_root", None),
    "gRootOnCycle": ("diagram_root_revisited", None),
    "gNamed": (None, {"prog": [["fwd"], ["name", 0, "E"], ["word", "0123456789"], ["lit", "("], ["lit", ")"],
                               ["and", [3, 0, 4]], ["mf", [2, 5]], ["assign", 0, 6]], "root": 0}),
}


def _lean_str(s):
    out = ['"']
    for ch in s:
        if ch == "\\":
            out.append("\\\\")
        elif ch == '"':
            out.append('\\"')
        elif ch == "\n":
            out.append("\\n")
        elif ch == "\t":
            out.append("\\t")
        elif 32 <= ord(ch) < 127:
            out.append(ch)
        else:
            out.append("\\u{%x}" % ord(ch))
    out.append('"')
    return "".join(out)


_LEAN_CLS = {"And": "and_", "Or": "or_", "MatchFirst": "matchFirst", "Each": "each", "NotAny": "notAny",
             "FollowedBy": "followedBy", "PrecededBy": "precededBy", "Group": "group",
             "TokenConverter": "tokenConverter", "Opt": "opt", "OneOrMore": "oneOrMore", "ZeroOrMore": "zeroOrMore",
             "Empty": "empty", "ParseElementEnhance": "enhance", "Regex": "regex", "Forward": "forward",
             "Located": "located", "PositionToken": "positionToken", "_ErrorStop": "errorStop"}


def _lean_opt(v):
    return "none" if v is None else f"some {_lean_str(v)}"


def gen_witness_lean():
    """PPProofs/Props/Gen/C20Witness.lean: node tables of the witness grammars, read off the live elements"""
    pp, D, stub = load_diagram()
    out = ["import PPModel.Mod.Diagram",
           "/-! GENERATED by harness/props/c20.py from the element graphs built with the current /repo source",
           "    (program -> real API -> streamline -> table of the facts the converter reads). Do not edit. -/",
           "namespace PP.Diagram", ""]
    for lname, (sig, case) in LEAN_GRAMMARS.items():
        if case is None:
            case = WITNESS[sig][0]
        env = build(pp, case["prog"])
        root = env[case["root"]]
        root.streamline()
        nodes, _, _ = table_of(pp, D, root)
        out.append(f"/-- {json.dumps(case)} -/")
        out.append(f"def {lname} : Grammar :=")
        rows = []
        for nd in nodes:
            cls = ", ".join("." + _LEAN_CLS[c] for c in nd["cls"])
            rows.append(
                f"  {{ cls := [{cls}], tname := {_lean_str(nd['tname'])}, kids := {nd['kids']}, "
                f"custom := {_lean_opt(nd['custom'])}, rname := {_lean_opt(nd['rname'])},\n"
                f"        modal := {'true' if nd['modal'] else 'false'}, shown := {'true' if nd['shown'] else 'false'}, "
                f"dname := {_lean_str(nd['dname'])}, term := {_lean_str(nd['term'])} }}")
        out.append("  [\n" + ",\n".join("  " + r for r in rows) + " ]")
        out.append("")
    out.append("end PP.Diagram")
    return "\n".join(out) + "\n"


def check_known(ctx):
    for e in ctx.known_entries:
        if e.get("status", "open") != "open":
            continue
        sig = e["signature"]
        if sig not in WITNESS:
            continue
        case, clause = WITNESS[sig]
        out = run_case(case, OPTS0)
        hit = [p for p in out["probs"] if p[0] == clause]
        if hit:
            ctx.fail_input("known finding witness", {"case": case, "opts": OPTS0}, f"clause {clause} holds",
                           hit[0][1], theorem=f"C20 {clause}", signature=sig)


# --------------------------------------------------------------------------------------------
def _how(case, opts):
    return ("harness.props.c20.run_case(case, opts): build(prog) with the real API, root.streamline(), "
            "pyparsing.diagram.to_railroad(root, **opts) over harness/railroad_stub")


def run(ctx):
    pp, D, stub = load_diagram()
    ok_proof = ctx.proof_leg("PPProofs.Props.C20", THEOREMS,
                             generated={"PPProofs/Props/Gen/C20Witness.lean": gen_witness_lean()},
                             extra_modules=("PPProofs.Props.C20Links",))
    ctx.rule.append(
        "random grammar programs (2-4 token leaves from 13 kinds, 0-2 Forwards, Empty/Tag, `size` composites over "
        "And/MatchFirst/Or/Each/+/-/Opt/ZeroOrMore/OneOrMore/Group/Suppress/Combine/Dict/NotAny/FollowedBy/"
        "PrecededBy/Located/SkipTo/AtLineStart/DelimitedList/expr*n, shared sub-expressions, results names, custom "
        "names) x random options; stream `safe` stays out of the known-finding regions by construction (checked "
        "by a static classifier) and is what the oracle judges; stream `any` also enters them (unnamed cycles, "
        "empty placeholders, '...', duplicate names, unassigned/unnamed Forward roots) and is only compared with "
        "the model; non-trivial = at least one composite below the root and >= 2 partials in the output"
    )
    check_known(ctx)
    # ---- corpus ---------------------------------------------------------------------------------
    corpus = []
    cdir = common.VERIF / "corpus" / "C20"
    if cdir.exists():
        for f in sorted(cdir.glob("*.json")):
            corpus.append(json.loads(f.read_text()))
    cases = [(c, OPTS0, "battery") for c in BATTERY]
    for c in BATTERY:
        cases.append((c, {"vertical": 1, "names": True, "groups": True, "hidden": True}, "battery"))
    for c in corpus:
        cases.append((c["case"], c.get("opts", OPTS0), c.get("safe", True)))
    rng = ctx.subrng("gen")
    n_safe = ctx.budget(8000, 150000)
    n_any = ctx.budget(4000, 60000)
    for i in range(n_safe):
        cases.append((gen_prog(rng, True, rng.randint(2, ctx.budget(9, 11))), gen_opts(rng), True))
    for i in range(n_any):
        cases.append((gen_prog(rng, False, rng.randint(2, 9)), gen_opts(rng), False))
    _judge(ctx, cases, "gen")
    # ---- search when something is broken --------------------------------------------------------
    if (ctx.broken or not ok_proof) and not ctx.fail_inputs:
        rng2 = ctx.subrng("search")
        more = [(gen_prog(rng2, True, rng2.randint(2, 12)), gen_opts(rng2), True)
                for _ in range(ctx.budget(6000, 40000))]
        _judge(ctx, more, "search", correspond=False)
    ctx.assumptions.append(
        "C20: railroad-diagrams is replaced by a structural stand-in (constructor signatures only); SVG rendering "
        "is not exercised; stop_on rewriting and jinja2 rendering are oracle-checked only; known-finding regions "
        "(diagram_unnamed_cycle, diagram_stop_on_cycle, diagram_empty_placeholder, diagram_dangling_skipto, "
        "diagram_unnamed_forward_root, diagram_same_name_merge) are excluded from the oracle stream")


def _one(args):
    case, opts, safe = args
    try:
        out = run_case(case, opts)
    except Exception as ex:  # build failure of a generated program is a generator matter, not a finding
        return {"skip": f"{type(ex).__name__}: {ex}"}
    reg = regions(out["nodes"], opts, out["has_stop"])
    rank = rank_of(out["nodes"])
    # the classifier of the unnamed-cycle region and the hypothesis of terminates_partial must agree
    # (a named stop_on repetition is a cut for `Ranked` but is never registered by the real converter)
    bound = None
    if rank is not None:
        bound = len(out["nodes"]) * (max(rank) + 3) + max(rank) + 2
    line = None if out["has_stop"] else model_line(out["nodes"], opts, fuel=bound if bound is not None else 400)
    rline = None if (out["has_stop"] or rank is None) else ranked_line(out["nodes"], rank)
    return {"canon": out["canon"], "probs": out["probs"], "regions": sorted(reg), "line": line,
            "n_nodes": len(out["nodes"]), "outcome": out["res"][0], "rline": rline, "bound": bound,
            "ranked": rank is not None}


def _judge(ctx, cases, stream, correspond=True):
    results = common.pmap(_one, cases)
    ccases, lines, impl = [], [], []
    outcomes, n_or, skipped, rejected = {}, 0, 0, 0
    for (case, opts, safe), r in zip(cases, results):
        if "skip" in r:
            skipped += 1
            continue
        reg = set(r["regions"]) - {"stop_on"}
        if r["line"] is not None and correspond:
            ccases.append({"case": case, "opts": opts})
            lines.append(r["line"])
            impl.append(r["canon"])
        if safe:
            n_or += 1
            if reg and safe != "battery":
                # the generator could not avoid a region by construction (e.g. copies made by results names):
                # the case is left to the correspondence stream
                n_or -= 1
                rejected += 1
                continue
            key = "ok" if not r["probs"] else r["probs"][0][0]
            outcomes[key] = outcomes.get(key, 0) + 1
            if r["probs"] and len(ctx.fail_inputs) < 3:
                case2, opts2, probs2 = shrink(case, opts, r["probs"][0][0])
                ctx.fail_input("diagram clause violated: " + probs2[0][0], {"case": case2, "opts": opts2},
                               f"clause {probs2[0][0]} of C20 holds", [list(p) for p in probs2[:4]],
                               theorem="C20 " + probs2[0][0], how=_how(case2, opts2))
    ctx.count_cases(f"oracle-{stream}", n_or, outcomes=outcomes,
                    distinct_keys=[json.dumps(c[0], sort_keys=True) for c in cases if c[2]][:n_or],
                    samples=[{"case": cases[0][0], "opts": cases[0][1]}])
    ctx.notes.setdefault("skipped_programs", 0)
    ctx.notes["skipped_programs"] += skipped
    ctx.notes.setdefault("safe_stream_rejected_by_region_classifier", 0)
    ctx.notes["safe_stream_rejected_by_region_classifier"] += rejected
    n_safe_total = sum(1 for c in cases if c[2])
    if n_safe_total > 50 and rejected > 0.5 * n_safe_total:
        raise common.HarnessError(f"safe generator: {rejected}/{n_safe_total} cases fell into known-finding regions")
    # hypothesis of terminates_partial: the rank computed here is accepted by the Lean `rankedB`, the bound is
    # the Lean `fuelBound` (the model lines above were run with exactly that fuel), and the real code terminated
    rl = [(r["rline"], r["bound"], r["outcome"], c) for c, r in zip(cases, results)
          if "skip" not in r and r.get("rline") and correspond]
    if rl:
        outs = ctx.driver.run_sharded([x[0] for x in rl])
        bad = [(x[3][0], o) for x, o in zip(rl, outs) if o != f"(T {x[1]})"]
        hung = [(x[3][0], x[3][1]) for x in rl if x[2] != "ok"]
        ctx.obligation(f"terminates_partial hypothesis (Ranked) checked by the model on {len(rl)} generated "
                       f"grammars without uncut cycle; all of them terminate on the real code", not bad and not hung,
                       json.dumps((bad or hung)[:2])[:400])
        for c, o in hung[:3]:
            ctx.fail_input("ranked grammar does not terminate", {"case": c, "opts": o},
                           "terminates (terminates_partial: every cycle passes through a custom-named element)",
                           "RecursionError / exception", theorem="PP.Diagram.terminates_partial")
        for (c, r) in zip(cases, results):
            if "skip" not in r and ("diagram_unnamed_cycle" in r["regions"]) == r.get("ranked", False) \
                    and not ("stop_on" in r["regions"]):
                raise common.HarnessError("region classifier and rank computation disagree: " + json.dumps(c[0]))
    if ccases:
        diffs = ctx.correspond(f"diagram-{stream}", ccases, lines, impl,
                               nontrivial=lambda c, o: o.count("(") > 6,
                               outcome_of=lambda c, o: o.split(" ", 1)[0].lstrip("(")[:12])
        # a diff is not a violation by itself: judge the diffing cases (whatever their stream) with the oracle
        for i in diffs[:20]:
            c = ccases[i]
            out = run_case(c["case"], c["opts"])
            reg = regions(out["nodes"], c["opts"], out["has_stop"])
            if out["probs"] and not reg and len(ctx.fail_inputs) < 3:
                case2, opts2, probs2 = shrink(c["case"], c["opts"], out["probs"][0][0])
                ctx.fail_input("diagram clause violated: " + probs2[0][0], {"case": case2, "opts": opts2},
                               f"clause {probs2[0][0]} of C20 holds", [list(p) for p in probs2[:4]],
                               theorem="C20 " + probs2[0][0], how=_how(case2, opts2))


def _fails(case, opts, clause, any_region=False):
    try:
        out = run_case(case, opts)
    except Exception:
        return None
    if not any_region and regions(out["nodes"], opts, out["has_stop"]) - {"stop_on"}:
        return None
    hit = [p for p in out["probs"] if p[0] == clause]
    return out["probs"] if hit else None


def prune(case):
    """drop the statements the root does not depend on and renumber"""
    prog, root = case["prog"], case["root"]

    def refs(st):
        op = st[0]
        if op in ("and", "mf", "or", "each"):
            return list(st[1])
        if op in ("plus", "minus", "zom_stop", "oom_stop", "ellipsis", "assign"):
            return [st[1], st[2]]
        if op in ("opt", "zom", "oom", "mul", "group", "suppress", "combine", "dict", "not", "fb", "located",
                  "skipto", "atline", "delim", "infix", "name", "rname"):
            return [st[1]]
        return []

    need, changed = {root}, True
    while changed:
        changed = False
        for k, st in enumerate(prog):
            hit = k in need or (st[0] in ("name", "assign") and st[1] in need)
            if hit:
                for r in [k] + refs(st):
                    if r not in need:
                        need.add(r)
                        changed = True
    keep = sorted(need)
    ren = {k: i for i, k in enumerate(keep)}
    out = []
    for k in keep:
        st = list(prog[k])
        op = st[0]
        if op in ("and", "mf", "or", "each"):
            st[1] = [ren[r] for r in st[1]]
        elif op in ("plus", "minus", "zom_stop", "oom_stop", "ellipsis", "assign"):
            st[1], st[2] = ren[st[1]], ren[st[2]]
        elif refs(st):
            st[1] = ren[st[1]]
        out.append(st)
    return {"prog": out, "root": ren[root]}


def shrink(case, opts, clause):
    """greedy: simpler options, an earlier definition as root, children instead of composites, pruning"""
    first = _fails(case, opts, clause)
    if not first:
        # battery grammars (infix_notation, nested_expr: copies with equal names) are judged as they are
        first = _fails(case, opts, clause, any_region=True)
        return case, opts, first or [(clause, "not reproducible in isolation")]
    best = (case, opts, first)
    for o2 in (dict(opts, names=False), dict(opts, groups=False), dict(opts, hidden=False),
               dict(opts, vertical=3), OPTS0):
        o2 = dict(best[1], **{k: v for k, v in o2.items() if o2 is OPTS0 or v != opts[k]})
        p = _fails(best[0], o2, clause)
        if p:
            best = (best[0], o2, p)
    for _ in range(40):
        c = best[0]
        cands = []
        for r in range(c["root"]):
            cands.append({"prog": c["prog"], "root": r})
        for k, st in enumerate(c["prog"]):
            if st[0] in ("and", "mf", "or", "each") and len(st[1]) > 1:
                for j in range(len(st[1])):
                    p2 = [list(x) for x in c["prog"]]
                    p2[k] = [st[0], st[1][:j] + st[1][j + 1:]]
                    cands.append({"prog": p2, "root": c["root"]})
            if st[0] in ("name", "rname") and k != c["root"]:
                p2 = [list(x) for x in c["prog"]]
                p2[k] = ["name", st[1], c["prog"][k][2]] if False else ["empty"]
                if st[0] == "name":
                    cands.append({"prog": p2, "root": c["root"]})
        for c2 in cands:
            try:
                c2 = prune(c2)
            except Exception:
                continue
            if len(json.dumps(c2)) >= len(json.dumps(prune(c))) and c2["root"] >= c["root"]:
                continue
            p = _fails(c2, best[1], clause)
            if p:
                best = (c2, best[1], p)
                break
        else:
            break
    try:
        pc = prune(best[0])
        p = _fails(pc, best[1], clause)
        if p:
            best = (pc, best[1], p)
    except Exception:
        pass
    return best


def replay(data):
    load_diagram()
    case = data.get("case", {})
    if "case" in case:
        out = run_case(case["case"], case.get("opts", OPTS0))
        return bool(out["probs"])
    ctx = common.Ctx("C20", "quick", data.get("seed", 0))
    run(ctx)
    return bool(ctx.broken or ctx.fail_inputs)
