"""C15 support: instrumentation of pyparsing's class-level shared state from OUTSIDE the source, and a
deterministic thread scheduler.

Session(pp, mode) replaces, for the duration of one case,
    ParserElement.packrat_cache_lock / recursion_lock   by LockWrap   (delegates to a real RLock)
    ParserElement.packrat_cache                         by CacheWrap  (delegates to the real cache object)
    ParserElement.recursion_memos                       by MemoWrap   (delegates to the real memo object)
and restores the original class attributes in close().  Every wrapper method
    1. parks the calling worker thread (controlled runs) until the controller resumes it,
    2. performs the real operation,
    3. appends (tid, event) to the session trace.
Only one worker runs at a time in a controlled run, so the trace order is the execution order.  In a
free-running run (controlled=False) acquire is logged after the real acquire and release before the real
release, so that events inside a lock region are logged inside it.
"""
from __future__ import annotations

import sys
import threading

from ..sexp import Sym

LOCK_TIMEOUT = 5.0
STEP_TIMEOUT = 20.0


class Abort(BaseException):
    """raised inside parked workers when a controlled run is torn down (deadlock)"""


class SchedTrouble(Exception):
    """harness-level problem (never a property violation)"""


class Interner:
    def __init__(self):
        self.exprs, self.keep = {}, []
        self.strs, self.vals = {}, {}
        self.val_names = []

    def expr(self, e):
        i = self.exprs.get(id(e))
        if i is None:
            i = self.exprs[id(e)] = len(self.exprs) + 1
            self.keep.append(e)
        return i

    def string(self, s):
        return self.strs.setdefault(s, len(self.strs))

    def val(self, canon):
        i = self.vals.get(canon)
        if i is None:
            i = self.vals[canon] = len(self.vals) + 1
            self.val_names.append(canon)
        return i


def canon_results(pr):
    try:
        names = sorted((k, repr(v.as_list() if hasattr(v, "as_list") else v)) for k, v in pr.items())
    except Exception:  # pragma: no cover
        names = "?"
    return f"{pr.as_list()!r} {names!r}"


def canon_value(pp, v):
    """canonical form of a cached value / memo value / call outcome"""
    if isinstance(v, pp.ParseBaseException):
        return f"exc {type(v).__name__} {v.loc}"
    if isinstance(v, BaseException):
        return f"internal {type(v).__name__}"
    if isinstance(v, tuple):
        parts = []
        for x in v:
            if isinstance(x, pp.ParseResults):
                parts.append(canon_results(x))
            elif isinstance(x, BaseException):
                parts.append(canon_value(pp, x))
            else:
                parts.append(repr(x))
        return "tup " + " | ".join(parts)
    if isinstance(v, pp.ParseResults):
        return "res " + canon_results(v)
    return "obj " + repr(v)


class Worker:
    def __init__(self, tid, fn):
        self.tid, self.fn = tid, fn
        self.go = threading.Semaphore(0)
        self.pending = None
        self.finished = False
        self.outcome = None
        self.thread = None


class LockWrap:
    def __init__(self, ses, name, real):
        self.ses, self.name, self.real = ses, name, real
        self.owner, self.count = None, 0

    def acquire(self, blocking=True, timeout=-1):
        ses = self.ses
        tid = ses.tid()
        ses.park(("acq" + self.name,), tid)
        if not self.real.acquire(timeout=LOCK_TIMEOUT):
            ses.stuck = True
            raise SchedTrouble(f"real lock {self.name} not acquired within {LOCK_TIMEOUT}s (thread {tid})")
        self.owner, self.count = tid, self.count + 1
        ses.log(tid, Sym("acq" + self.name))
        return True

    def release(self):
        ses = self.ses
        tid = ses.tid()
        ses.park(("rel" + self.name,), tid)
        ses.log(tid, Sym("rel" + self.name))
        self.count -= 1
        if self.count <= 0:
            self.owner, self.count = None, 0
        self.real.release()

    __enter__ = acquire

    def __exit__(self, *a):
        self.release()
        return False


class CacheWrap:
    def __init__(self, ses, real):
        self.ses, self.real = ses, real
        self.not_in_cache = real.not_in_cache
        self.size = getattr(real, "size", None)
        self.bounded = type(real).__name__ not in ("_UnboundedCache", "NullCache")
        self.shadow = []  # keys believed present, insertion order (only used to observe evictions)

    def _k(self, key):
        ses = self.ses
        try:
            e, s, loc, cp, da = key
            return [ses.I.expr(e), ses.I.string(s), loc, (2 if cp else 0) + (1 if da else 0)]
        except Exception:
            return [ses.I.expr(key), 0, 0, 99]

    def get(self, key):
        ses = self.ses
        tid = ses.tid()
        ses.park(("cget",), tid)
        v = self.real.get(key)
        r = Sym("none") if v is self.not_in_cache else ses.I.val(canon_value(ses.pp, v))
        ses.log(tid, [Sym("cget"), self._k(key), r])
        return v

    def set(self, key, value):
        ses = self.ses
        tid = ses.tid()
        ses.park(("cput",), tid)
        self.real.set(key, value)
        ses.log(tid, [Sym("cput"), self._k(key), ses.I.val(canon_value(ses.pp, value))])
        if self.bounded:
            if not any(k is key or k == key for k in self.shadow):
                self.shadow.append(key)
            gone = [k for k in self.shadow if self.real.get(k) is self.not_in_cache]
            for k in gone:
                ses.log(tid, [Sym("cpop"), self._k(k)])
            if gone:
                self.shadow = [k for k in self.shadow if not any(k is g for g in gone)]

    def clear(self):
        ses = self.ses
        tid = ses.tid()
        ses.park(("cclear",), tid)
        self.real.clear()
        self.shadow = []
        ses.log(tid, Sym("cclear"))


class MemoWrap:
    def __init__(self, ses, real):
        self.ses, self.real = ses, real

    def _k(self, key):
        loc, fwd, acts = key
        return [loc, self.ses.I.expr(fwd), bool(acts)]

    def __getitem__(self, key):
        ses = self.ses
        tid = ses.tid()
        ses.park(("mget",), tid)
        try:
            v = self.real[key]
        except KeyError:
            ses.log(tid, [Sym("mget"), self._k(key), Sym("none")])
            raise
        ses.log(tid, [Sym("mget"), self._k(key), ses.I.val(canon_value(ses.pp, v))])
        return v

    def __setitem__(self, key, value):
        ses = self.ses
        tid = ses.tid()
        ses.park(("mset",), tid)
        self.real[key] = value
        ses.log(tid, [Sym("mset"), self._k(key), ses.I.val(canon_value(ses.pp, value))])

    def __delitem__(self, key):
        ses = self.ses
        tid = ses.tid()
        ses.park(("mdel",), tid)
        del self.real[key]
        ses.log(tid, [Sym("mdel"), self._k(key)])

    def clear(self):
        ses = self.ses
        tid = ses.tid()
        ses.park(("mclear",), tid)
        self.real.clear()
        ses.log(tid, Sym("mclear"))

    def __getattr__(self, name):
        return getattr(self.real, name)

    def __len__(self):
        return len(self.real)

    def __iter__(self):
        return iter(self.real)

    def __contains__(self, k):
        return k in self.real


LOCK_TYPES = (type(threading.RLock()), type(threading.Lock()))


def walk(exprs):
    """all elements reachable from the grammars (through .expr / .exprs), each once"""
    seen, out, todo = set(), [], list(exprs)
    while todo:
        e = todo.pop()
        if e is None or id(e) in seen:
            continue
        seen.add(id(e))
        out.append(e)
        sub = getattr(e, "exprs", None)
        if isinstance(sub, (list, tuple)):
            todo.extend(sub)
        one = getattr(e, "expr", None)
        if one is not None and not isinstance(one, str):
            todo.append(one)
    return out


def instance_locks(exprs):
    """(element, attribute, lock object) for every lock stored on an element INSTANCE"""
    out = []
    for e in walk(exprs):
        for attr, v in sorted(getattr(e, "__dict__", {}).items()):
            if isinstance(v, LOCK_TYPES) or isinstance(v, LockWrap):
                out.append((e, attr, v))
    return out


def set_mode(pp, mode):
    """mode: ('off',) | ('packrat', size|None) | ('lr',)"""
    PE = pp.ParserElement
    PE.disable_memoization()
    if mode[0] == "packrat":
        PE.enable_packrat(mode[1], force=True)
    elif mode[0] == "lr":
        PE.enable_left_recursion(force=True)


CURRENT = [None]  # the active Session (for yield points inside parse actions)


def current():
    return CURRENT[0]


class Session:
    """one instrumented case; use as a context manager"""

    def __init__(self, pp, mode, interner=None, gran="region", fine=False, exprs=(), start_park=False):
        """exprs: grammars whose elements are searched for INSTANCE-level lock attributes (the unchanged code has
        none: both locks are class attributes of ParserElement); any found is wrapped as lock F<i> and scheduled like
        the class-level ones.  start_park: every worker first parks at a `start` point BEFORE calling its function, so
        that a schedule decides when the thread enters its entry point at all."""
        self.pp, self.mode = pp, mode
        self.exprs, self.start_park = list(exprs), start_park
        self.locks, self.inst_saved = {}, []
        self.I = interner or Interner()
        self.gran = gran  # region | lock | event | fine
        self.trace = []
        self.controlled = False
        self.workers = {}
        self.by_ident = {}
        self.ctl = threading.Semaphore(0)
        self.abort = False
        self.stuck = False
        self.deadlock = False
        self.sched_done = []
        self.blocked = []  # at a deadlock: [tid, what it waits for, who holds it] per unfinished worker
        self.enabled_log = []  # enabled set before each scheduling decision (parallel to sched_done)

    # ---- install / restore ----------------------------------------------------------------------
    def __enter__(self):
        pp = self.pp
        PE = pp.ParserElement
        self.saved = dict(
            packrat_cache_lock=PE.packrat_cache_lock, recursion_lock=PE.recursion_lock,
            packrat_cache=PE.packrat_cache, recursion_memos=PE.recursion_memos,
            _parse=PE.__dict__["_parse"], _packratEnabled=PE._packratEnabled,
            _left_recursion_enabled=PE._left_recursion_enabled,
        )
        set_mode(pp, self.mode)
        # a fresh lock object of the same type per session: a lock leaked by an earlier case (possible only
        # if the code under test forgets a release) must not block later cases
        self.P = LockWrap(self, "P", type(PE.packrat_cache_lock)())
        self.R = LockWrap(self, "R", type(PE.recursion_lock)())
        self.C = CacheWrap(self, PE.packrat_cache)
        self.M = MemoWrap(self, PE.recursion_memos)
        self.locks = {"P": self.P, "R": self.R}
        for e, attr, lock in instance_locks(self.exprs):
            w = LockWrap(self, f"F{len(self.inst_saved) + 1}", type(lock)())
            self.locks[w.name] = w
            self.inst_saved.append((e, attr, lock))
            setattr(e, attr, w)
        PE.packrat_cache_lock, PE.recursion_lock = self.P, self.R
        PE.packrat_cache, PE.recursion_memos = self.C, self.M
        CURRENT[0] = self
        self.fine_codes = set()
        for f in (PE.__dict__["_parseCache"], PE.__dict__["reset_cache"], pp.Forward.__dict__["parseImpl"]):
            f = getattr(f, "__func__", f)
            if hasattr(f, "__code__"):
                self.fine_codes.add(f.__code__)
        self.opcode_codes = set()
        for obj in (self.C.real, self.M.real):
            for nm in ("get", "set", "clear", "__getitem__", "__setitem__", "__delitem__"):
                m = getattr(obj, nm, None)
                f = getattr(m, "__func__", None)
                c = getattr(f, "__code__", None)
                if c is not None:
                    self.fine_codes.add(c)
                    if nm in ("set", "__delitem__", "__getitem__"):
                        self.opcode_codes.add(c)
        return self

    def __exit__(self, *a):
        PE = self.pp.ParserElement
        s = self.saved
        CURRENT[0] = None
        for e, attr, lock in self.inst_saved:
            setattr(e, attr, type(lock)() if (self.stuck or self.deadlock) else lock)
        if self.stuck or self.deadlock:
            # a real lock may be held for ever by a dead/stuck thread: hand out fresh ones
            PE.packrat_cache_lock, PE.recursion_lock = threading.RLock(), threading.RLock()
        else:
            PE.packrat_cache_lock, PE.recursion_lock = s["packrat_cache_lock"], s["recursion_lock"]
        PE.packrat_cache, PE.recursion_memos = s["packrat_cache"], s["recursion_memos"]
        PE._parse = s["_parse"]
        PE._packratEnabled = s["_packratEnabled"]
        PE._left_recursion_enabled = s["_left_recursion_enabled"]
        return False

    # ---- used by the wrappers ---------------------------------------------------------------------
    def tid(self):
        w = self.by_ident.get(threading.get_ident())
        return w.tid if w is not None else -1

    def log(self, tid, ev):
        self.trace.append([tid, ev])

    def visible(self, tid, ev):
        k = ev[0]
        if k in ("act", "wait", "start"):
            return True
        if k == "line":
            return self.gran == "fine"
        if self.gran in ("event", "fine"):
            return True
        if k == "start":
            return True
        if self.gran == "lock" and k[:3] in ("acq", "rel") and k[3:] in self.locks:
            return True  # every lock operation, re-entrant ones included
        if k[:3] == "acq" and k[3:] in self.locks:
            return self.locks[k[3:]].owner != tid
        return False

    def park(self, ev, tid):
        if not self.controlled or tid < 0:
            return
        if self.abort:
            return  # a worker unwinding after the run was torn down (deadlock) must not park again
        if not self.visible(tid, ev):
            return
        w = self.workers[tid]
        w.pending = ev
        self.ctl.release()
        w.go.acquire()
        w.pending = None
        if self.abort:
            raise Abort()

    # ---- yield points usable from parse actions / consumer code of a scenario ------------------------------
    def yield_point(self, kind="act"):
        """park the calling worker here (always visible); no-op outside controlled runs"""
        self.park((kind,), self.tid())

    def mark(self, ev):
        """log a marker pseudo-event (scenario code: begin/end of a nested entry call); markers are stripped
        before a trace is validated or compared"""
        self.log(self.tid(), ev)

    def wait_for(self, tids):
        """the calling worker waits until the workers `tids` have finished (scheduler-visible: while it waits it
        is not enabled; if nobody else is enabled either, the run is a deadlock)"""
        self.park(("wait", tuple(tids)), self.tid())

    # ---- fine granularity: line / opcode events inside the cache functions --------------------------
    def _tracer(self, frame, event, arg):
        code = frame.f_code
        if code in self.fine_codes:
            return self._local
        return None

    def _local(self, frame, event, arg):
        if event in ("line", "opcode"):
            self.park(("line", frame.f_code.co_name, frame.f_lineno), self.tid())
        return self._local

    # ---- running ------------------------------------------------------------------------------------
    def _body(self, w):
        self.by_ident[threading.get_ident()] = w
        if self.gran == "fine" and self.controlled:
            sys.settrace(self._tracer)
        try:
            if self.start_park and self.controlled:
                self.park(("start",), w.tid)
            w.outcome = w.fn()
        except Abort:
            w.outcome = ("aborted",)
        except BaseException as e:  # noqa
            w.outcome = ("internal", type(e).__name__, str(e)[:80])
        finally:
            sys.settrace(None)
            w.finished = True
            if self.controlled:
                self.ctl.release()

    def enabled(self):
        out = []
        for t, w in sorted(self.workers.items()):
            if w.finished or w.pending is None:
                continue
            k = w.pending[0]
            if k[:3] == "acq" and k[3:] in self.locks and self.locks[k[3:]].owner not in (None, t):
                continue
            if k == "wait" and not all(self.workers[u].finished for u in w.pending[1]):
                continue
            out.append(t)
        return out

    def _wait(self):
        if not self.ctl.acquire(timeout=STEP_TIMEOUT):
            self.stuck = True
            raise SchedTrouble("worker neither parked nor finished within timeout")

    def run_controlled(self, fns, sched=None, chooser=None, max_steps=200000):
        """returns (outcomes, status) with status in ok | bad-sched | deadlock"""
        self.controlled = True
        self.workers = {t: Worker(t, fn) for t, fn in enumerate(fns)}
        for t, w in self.workers.items():
            w.thread = threading.Thread(target=self._body, args=(w,), daemon=True)
            w.thread.start()
            self._wait()
        sched = list(sched or [])
        status = "ok"
        steps = 0
        while True:
            en = self.enabled()
            if not en:
                break
            if sched:
                t = sched.pop(0)
                if t not in en:
                    status = "bad-sched"
                    break
            elif chooser is not None:
                t = chooser(en, self)
            else:
                t = en[0]
            self.sched_done.append(t)
            self.enabled_log.append(list(en))
            self.workers[t].go.release()
            self._wait()
            steps += 1
            if steps > max_steps:
                raise SchedTrouble("too many scheduler steps")
        unfinished = [t for t, w in self.workers.items() if not w.finished]
        if unfinished:
            if status == "ok":
                status = "deadlock"
                self.deadlock = True
                for t in unfinished:
                    pend = self.workers[t].pending
                    k = pend[0] if pend else "?"
                    lk = self.locks.get(k[3:]) if k[:3] == "acq" else None
                    holder = lk.owner if lk is not None else None
                    what = {"acqP": "packrat_cache_lock", "acqR": "recursion_lock"}.get(
                        k, f"instance lock {k[3:]}" if lk is not None else k)
                    self.blocked.append([t, what, holder if holder is not None else list(pend[1:]) if pend else None])
            self.abort = True
            # resume parked workers one at a time; they raise Abort at their park point and unwind
            for t in unfinished:
                w = self.workers[t]
                if w.pending is not None:
                    w.go.release()
                    self._wait()
            self.deadlock = self.deadlock or any(not w.finished for w in self.workers.values())
        self.controlled = False
        outs = [self.workers[t].outcome for t in sorted(self.workers)]
        return outs, status

    def run_serial(self, fn):
        """one call alone in the calling thread (events are logged with tid -1)"""
        self.controlled = False
        try:
            return fn()
        except BaseException as e:  # noqa
            return ("internal", type(e).__name__, str(e)[:80])

    def run_free(self, fns, join_timeout=30.0):
        """free-running threads; returns (outcomes, status)"""
        self.controlled = False
        self.workers = {t: Worker(t, fn) for t, fn in enumerate(fns)}
        old = sys.getswitchinterval()
        sys.setswitchinterval(1e-6)
        try:
            for w in self.workers.values():
                w.thread = threading.Thread(target=self._body, args=(w,), daemon=True)
            for w in self.workers.values():
                w.thread.start()
            status = "ok"
            for w in self.workers.values():
                w.thread.join(join_timeout)
                if w.thread.is_alive():
                    status = "deadlock"
                    self.deadlock = True
        finally:
            sys.setswitchinterval(old)
        return [self.workers[t].outcome for t in sorted(self.workers)], status
