"""Left-recursive rule sets (C04) and their iterative equivalents.

direct(rng)    -> (prog, root, iter_prog, iter_root, inputs, meta): 1-3 levels of  E <<= E op T | E op2 T | T  (body
                  MatchFirst or Or, grouped or flat, '-' or '+' after the operator), atoms Word("ab")/Word("01"), optional
                  parenthesised recursion back to the top level; iter_* is the repetition grammar  T (op T)*  (left-nested
                  groups rebuilt by the harness when grouped).
indirect(rng)  -> rule sets whose left-edge cycle passes through >= 2 Forwards (the registered finding's region).
"""
from __future__ import annotations


def direct(rng):
    levels = rng.choice([1, 1, 2, 2, 3])
    ops_pool = [["+", "-"], ["*", "/"], ["^"], ["+"], ["*"], [","]]
    rng.shuffle(ops_pool)
    grouped = rng.random() < 0.5
    body_kind = rng.choice(["MatchFirst", "MatchFirst", "Or"])
    dash = rng.random() < 0.25
    base_first = rng.random() < 0.2  # base alternative listed first (MatchFirst then never grows!)
    atom_chars = rng.choice(["ab", "01"])
    prog, it = [], []
    n = 0

    def v(p="e"):
        nonlocal n
        n += 1
        return f"{p}{n}"

    for P in (prog, it):
        P.append(["atom", "Word", atom_chars])
    parens = levels >= 2 and rng.random() < 0.5
    # a terminal alternative listed BEFORE the recursive ones at the top level (E <<= q | E op T | T): a nested occurrence of
    # E (inside parentheses) can then be settled by an alternative that never looks at the recursion memo
    qfirst = parens and not grouped and body_kind == "MatchFirst" and rng.random() < 0.35
    fw = [f"L{i}" for i in range(levels)]
    for f in fw:
        prog.append([f, "Forward"])
    if parens:
        it.append(["L0", "Forward"])
    # lowest operand
    for P in (prog, it):
        if parens:
            P += [["lp", "Literal", "("], ["rp", "Literal", ")"], ["par", "And", ["lp", "L0", "rp"]],
                  ["prim", "MatchFirst", ["atom", "par"]]]
        else:
            P.append(["prim", "copy", "atom"])
    lower_lr, lower_it = "prim", "prim"
    meta_ops = []
    for i in reversed(range(levels)):
        ops = ops_pool[i % len(ops_pool)]
        meta_ops.append(ops)
        f = fw[i]
        alts = []
        it_alts = []
        for k, op in enumerate(ops):
            o = f"op{i}_{k}"
            for P in (prog, it):
                P.append([o, "Literal", op])
            s1, s2 = f"s{i}_{k}a", f"s{i}_{k}"
            prog.append([s1, "+", f, o])
            prog.append([s2, "-" if dash else "+", s1, lower_lr])
            if grouped:
                prog.append([s2 + "g", "Group", s2])
                alts.append(s2 + "g")
            else:
                alts.append(s2)
            it.append([f"t{i}_{k}", "-" if dash else "+", o, lower_it])
            it_alts.append(f"t{i}_{k}")
        alts = ([lower_lr] + alts) if base_first else (alts + [lower_lr])
        if qfirst and i == 0:
            for P in (prog, it):
                P.append(["q", "Literal", "q"])
            alts = ["q"] + alts
        prog.append([f"b{i}", body_kind, alts])
        prog.append(["_", "<<=", f, f"b{i}"])
        # iterative equivalent of this level: lower (op lower)*
        it.append([f"ta{i}", "MatchFirst", it_alts])
        it.append([f"tz{i}", "ZeroOrMore", f"ta{i}"])
        if i == 0 and parens:
            it.append([f"I{i}b", "+", lower_it, f"tz{i}"])
            if qfirst:
                # with `q` first, a rule that starts on a `q` returns it in every growth round: no growth
                it.append([f"I{i}q", "MatchFirst", ["q", f"I{i}b"]])
                it.append(["_", "<<=", "L0", f"I{i}q"])
            else:
                it.append(["_", "<<=", "L0", f"I{i}b"])
            cur_it = "L0"
        else:
            it.append([f"I{i}", "+", lower_it, f"tz{i}"])
            cur_it = f"I{i}"
        lower_lr, lower_it = f, cur_it
    root, it_root = fw[0], lower_it
    # inputs: random expression strings over the operators
    all_ops = [o for ops in meta_ops for o in ops]

    def expr(d=0):
        k = rng.randint(1, 4)
        parts = []
        for j in range(k):
            if parens and d < 2 and rng.random() < 0.25:
                parts.append("(" + ("q" if qfirst and rng.random() < 0.5 else expr(d + 1)) + ")")
            else:
                parts.append("".join(rng.choice(atom_chars) for _ in range(rng.randint(1, 2))))
        out = parts[0]
        for p in parts[1:]:
            out += rng.choice(["", " "]) + rng.choice(all_ops) + rng.choice(["", " "]) + p
        return out

    inputs = [expr() for _ in range(5)]
    s = inputs[0]
    inputs += [s + rng.choice(all_ops), rng.choice(all_ops) + s, s[:-1] + "x", "", " " + s + " "]
    if qfirst:
        inputs[4] = "q" + rng.choice(all_ops) + inputs[4]
    meta = dict(levels=levels, grouped=grouped, body=body_kind, dash=dash, base_first=base_first, parens=parens, qfirst=qfirst)
    return prog, root, it, it_root, inputs, meta


def left_nest(tokens, n_ops_arity=2):
    """flat [a, op, b, op, c] -> left-nested [[[a, op, b], op, c]] (what Group'ed left recursion yields)"""
    if len(tokens) < 3:
        return tokens
    cur = [tokens[0], tokens[1], tokens[2]]
    i = 3
    while i + 1 < len(tokens):
        cur = [cur, tokens[i], tokens[i + 1]]
        i += 2
    return [cur]


def indirect(rng):
    """X <<= Y + 'x' | 'a' ; Y <<= X + 'y'   (and variants)"""
    a, x, y = rng.choice(["a", "b"]), rng.choice(["x", "+"]), rng.choice(["y", "*"])
    prog = [["X", "Forward"], ["Y", "Forward"], ["la", "Literal", a], ["lx", "Literal", x], ["ly", "Literal", y],
            ["yx", "+", "Y", "lx"], ["bx", rng.choice(["MatchFirst", "Or"]), ["yx", "la"]], ["_", "<<=", "X", "bx"],
            ["xy", "+", "X", "ly"], ["_", "<<=", "Y", "xy"]]
    s = a + (y + x) * rng.randint(1, 3)
    return prog, "X", [s, a, s + y, a + y + x + y + x]
