"""An independent reference interpreter for the *PEG reading* of pyparsing grammars (C01), evaluated on the grammar
PROGRAM (harness/gram.py statements) — it never looks at pyparsing objects, flags or parse methods.

Reading implemented (from the documentation / the statement of C01):
  * a sequence needs every element in order; `|` takes the first alternative that matches; `^` the alternative that
    consumes the most input (leftmost on a tie); repetition is greedy and never gives back; lookaheads consume nothing;
  * every whitespace-skipping element first consumes leading whitespace, even when it then matches nothing:
        ev(E, i) = body(E, skip(i))  if skips(E)  else  body(E, i)
    `skips` is a *structural* property: tokens skip except CharsNotIn; NotAny does not; a sequence skips iff its first
    element does; an alternation iff all its alternatives do; a wrapper iff what it wraps does; Combine does;
  * Group nests, Suppress omits, Combine(adjacent) joins and allows no whitespace between its pieces;
  * SkipTo advances to the first position where the target matches (target tried without leading skip), failing when
    fail_on matches first; DelimitedList(e, delim, min, max, trailing, combine) is e (delim e)* with the counts;
  * end anchors: LineEnd/StringEnd at the end of text return len+1 (the documented convention); StringEnd beyond the end
    matches; LineEnd does not.
Default whitespace " \\t\\n\\r"; LineEnd skips " \\t\\r" only.  No parse actions, ignorables, custom whitespace.
"""
from __future__ import annotations

WS = " \t\n\r"
FAIL = None
KEYWORD_CHARS = "abcdefghijklmnopqrstuvwxyzABCDEFGHIJKLMNOPQRSTUVWXYZ0123456789_$"


class Unsupported(Exception):
    pass


class Fatal(Exception):
    """an element after an error stop ('-') failed: the parse is abandoned, nothing backtracks over this (C07)"""

    def __init__(self, loc):
        super().__init__(loc)
        self.loc = loc


class Ref:
    def __init__(self, prog, keyword_chars=KEYWORD_CHARS, ws=WS, each_twice=False):
        self.defs, self.fwd = {}, {}
        # each_twice: reproduce Each's handling of a nullable operand that is not an Opt (listed as required AND as
        # optional, so it can be consumed twice) - only used to recognise the registered finding
        self.each_twice = each_twice
        self.ws, self.kw = ws, keyword_chars
        self.node_ws = {}    # copies made with set_whitespace_chars: the copy itself skips its own set, then runs its
        #                      expression without a further leading skip (the element was pre-parsed by the copy)
        for st in prog:
            var, op, *a = st
            if var == "_":
                if op == "<<=":
                    self.fwd[a[0]] = a[1]
                else:
                    raise Unsupported(op)
            elif op == "set_whitespace_chars":
                self.node_ws[var] = a[1]
                self.defs[var] = ("copy", [a[0]])
            elif op == "leave_whitespace":
                self.defs[var] = ("tight", [a[0]])
            else:
                self.defs[var] = (op, a)
        self._n = 0
        self.dl_max1 = {v for v, (op, a) in self.defs.items()
                        if op == "DelimitedList" and len(a) > 1 and isinstance(a[1], dict) and a[1].get("max") == 1}
        for var in list(self.defs):
            self.desugar(var)
        self._skips = {}
        self.steps = 0
        # the reading is structural; pyparsing copies whitespace flags into wrappers when they are CONSTRUCTED, so a
        # Forward whose body (assigned later) does not skip is outside the class the reading covers (DESIGN §4.3 WF)
        for f, b in self.fwd.items():
            if not self.skips(b):
                raise Unsupported("Forward body does not skip whitespace")
        # error stops: which elements a '-' protects follows streamline()'s flattening; that is unambiguous for chains
        # written with binary + / - (flattened completely), not for a sequence containing '-' that is itself an element
        # of And([...]) / e*n / e[m,n] / DelimitedList(e) (flattened or not depending on the arity) - outside the reading
        # stop_on / fail_on expressions are parsed without ever being streamlined (registered C12 finding
        # streamline_changes_unstreamlined_user): a '-' inside one is not flattened into its sequence and protects nothing
        sentinels = []
        for v, (op, a) in self.defs.items():
            if op in ("ZeroOrMore", "OneOrMore") and len(a) > 1 and a[1] is not None:
                sentinels.append(a[1])
            if op == "SkipTo" and len(a) > 1 and isinstance(a[1], dict) and a[1].get("fail_on"):
                sentinels.append(a[1]["fail_on"])
        seen, todo = set(), list(sentinels)
        while todo:
            x = todo.pop()
            if x in seen or x not in self.defs:
                continue
            seen.add(x)
            op, a = self.defs[x]
            if op == "-":
                raise Unsupported("error stop inside a stop_on / fail_on expression")
            if x in self.dl_max1:
                # DelimitedList(e, max=1) is And([e, And([])]); until streamline() removes the empty And it raises
                # IndexError -> ParseException, so as an unstreamlined sentinel it never matches (same C12 finding)
                raise Unsupported("DelimitedList(max=1) inside a stop_on / fail_on expression")
            for y in a:
                if isinstance(y, str):
                    todo.append(y)
                elif isinstance(y, list):
                    todo += [z for z in y if isinstance(z, str)]
                elif isinstance(y, dict):
                    todo += [z for z in y.values() if isinstance(z, str)]
            if op == "Forward" and x in self.fwd:
                todo.append(self.fwd[x])
        for v, (op, a) in self.defs.items():
            if op in ("And", "*"):
                for x in (a[0] if op == "And" else [a[0]]):
                    if self.seq_node(x) is not None and "<STOP>" in self.flat_seq(x):
                        raise Unsupported("error stop inside a non-binary sequence")

    # ---- documented desugarings: e[m,n] == e*(m,n) == m copies + nested optionals / ZeroOrMore;
    #      DelimitedList(e, d, min, max, trailing, combine) == e + (d + e)*(min-1, max-1) [+ Opt(d)] [in Combine] ----
    def new(self, op, *a):
        self._n += 1
        v = f"_d{self._n}"
        self.defs[v] = (op, list(a))
        return v

    def times(self, e, m, n):
        """definition of e*(m, n) (n None = unbounded) as a variable"""
        if n is not None and (n < m or n == 0):
            raise Unsupported("empty repetition")
        if n is None:
            if m == 0:
                return self.new("ZeroOrMore", e)
            if m == 1:
                return self.new("OneOrMore", e)
            return self.new("And", [e] * m + [self.new("ZeroOrMore", e)])
        opt = None
        for _ in range(n - m):
            opt = self.new("Opt", e if opt is None else self.new("And", [e, opt]))
        items = [e] * m + ([opt] if opt is not None else [])
        return items[0] if len(items) == 1 else self.new("And", items)

    def desugar(self, var):
        op, a = self.defs[var]
        if op == "[]":
            m, n = a[1]
            self.defs[var] = ("copy", [self.times(a[0], m, n)])
        elif op == "DelimitedList":
            kw = dict(a[1]) if len(a) > 1 else {}
            delim, comb = kw.get("delim", ","), kw.get("combine", False)
            mn, mx = kw.get("min") or 1, kw.get("max")
            if mx is not None and mx - 1 == 0:
                if kw.get("trailing"):
                    raise Unsupported("DelimitedList max=1 with trailing delimiter (registered C18 finding)")
                rep = None
            else:
                d = self.new("Literal", delim)
                if not comb:
                    d = self.new("Suppress", d)
                rep = self.times(self.new("And", [d, a[0]]), mn - 1, None if mx is None else mx - 1)
            items = [a[0]] + ([rep] if rep is not None else [])
            if kw.get("trailing"):
                d2 = self.new("Literal", delim)
                items.append(self.new("Opt", d2 if comb else self.new("Suppress", d2)))
            body = items[0] if len(items) == 1 else self.new("And", items)
            self.defs[var] = ("Combine", [body, {"join": "", "adjacent": True}]) if comb else ("copy", [body])

    # ---- structural skip-ness ----------------------------------------------------------------
    def skips(self, v, seen=()):
        if v in self._skips:
            return self._skips[v]
        if v in seen:
            return True
        op, a = self.defs[v]
        seen = seen + (v,)
        if op in ("CharsNotIn", "~", "NotAny", "tight"):
            r = False
        elif op in ("+", "-", "And", "*"):
            first = a[0] if op != "And" else a[0][0]
            r = self.skips(first, seen)
        elif op in ("|", "^"):
            r = self.skips(a[0], seen) and self.skips(a[1], seen)
        elif op in ("MatchFirst", "Or"):
            r = all(self.skips(x, seen) for x in a[0])
        elif op in ("Each", "&"):
            r = True
        elif op in ("Opt", "ZeroOrMore", "OneOrMore", "Group", "Suppress", "FollowedBy", "Located", "copy", "SkipTo"):
            r = self.skips(a[0], seen)
        elif op == "Forward":
            b = self.fwd.get(v)
            r = self.skips(b, seen) if b is not None else True
        else:  # tokens, Combine
            r = True
        self._skips[v] = r
        return r

    def cp(self, v, seen=()):
        """the callPreparse attribute: False on MatchFirst/Or (ParseExpression.__init__), True on And, Combine, Located and
        tokens, copied from the contained expression by every other wrapper (ParseElementEnhance.__init__) — a
        SkipTo / Group / Opt ... over alternatives does not skip whitespace itself, which shows in SkipTo's skipped text"""
        op, a = self.defs[v]
        if op in ("|", "^", "MatchFirst", "Or", "Each", "&"):
            return False
        if op in ("Opt", "ZeroOrMore", "OneOrMore", "Group", "Suppress", "FollowedBy", "copy", "SkipTo", "~", "NotAny"):
            return v in seen or self.cp(a[0], seen + (v,))
        return True

    def skip(self, s, i, ws=None):
        ws = self.ws if ws is None else ws
        while i < len(s) and s[i] in ws:
            i += 1
        return i

    # ---- evaluation ---------------------------------------------------------------------------
    def ev(self, v, s, i, tight=False, top_noskip=False):
        """(end, tokens) or FAIL. tight: inside Combine(adjacent) — nothing skips."""
        self.steps += 1
        if self.steps > 200000:
            raise Unsupported("too many steps")
        op, a = self.defs[v]
        if v in self.node_ws:
            if not tight and not top_noskip and self.skips(v) and self.cp(v):
                i = self.skip(s, i, self.node_ws[v])
            return self.body(v, op, a, s, i, tight, True)
        if not tight and not top_noskip and self.skips(v) and self.cp(v):
            i = self.skip(s, i, " \t\r" if op == "LineEnd" else None)
        return self.body(v, op, a, s, i, tight, top_noskip)

    def ev_soft(self, v, s, i, tight, **kw):
        """negative lookahead (NotAny, stop_on, fail_on): a fatal failure counts as a non-match.
        stop_on / fail_on expressions are called with tight=False even inside a Combine(adjacent) region: Combine's
        leave_whitespace() copies and changes the repeated / target expression only, the sentinel keeps skipping."""
        try:
            return self.ev(v, s, i, tight, **kw)
        except Fatal:
            return FAIL

    def seq_node(self, v):
        """v, seen through copy(): a copy of a sequence is that sequence (and is flattened like it)"""
        seen = set()
        while self.defs[v][0] == "copy" and v not in seen:
            seen.add(v)
            v = self.defs[v][1][0]
        return v if self.defs[v][0] in ("+", "-") else None

    def flat_seq(self, v):
        """the elements of a sequence written with + and -, nested chains flattened as streamline() does;
        STOP marks an error stop"""
        n = self.seq_node(v)
        if n is None:
            return [v]
        op, a = self.defs[n]
        # (a + b) + c == a + (b + c) == And([a, b, c]): a nested sequence on either side is part of this sequence
        l = self.flat_seq(a[0]) if self.seq_node(a[0]) is not None else [a[0]]
        r = self.flat_seq(a[1]) if self.seq_node(a[1]) is not None else [a[1]]
        return l + (["<STOP>"] if op == "-" else []) + r

    def seq(self, items, s, i, tight, edge=False):
        toks, stopped, first = [], False, True
        for x in items:
            if x == "<STOP>":
                stopped = True
                continue
            r = self.ev(x, s, i, tight, top_noskip=edge and first)
            first = False
            if r is FAIL:
                if stopped:
                    raise Fatal(i)
                return FAIL
            i, t = r
            toks += t
        return i, toks

    def many(self, e, s, i, tight, lo, hi, stop=None):
        toks, n = [], 0
        while hi is None or n < hi:
            if stop is not None and self.ev_soft(stop, s, i, False) is not FAIL:
                break
            r = self.ev(e, s, i, tight)
            if r is FAIL:
                break
            j, t = r
            if j <= i and n >= lo:
                raise Unsupported("zero-width repetition")
            i, n = j, n + 1
            toks += t
        return (i, toks) if n >= lo else FAIL

    def each_operands(self, v):
        """operand list of an Each; `a & b & c` builds Each([Each([a, b]), c]) which streamline() flattens"""
        op, a = self.defs[v]
        if op == "Each":
            return list(a[0])
        l, r = a[0], a[1]
        return (self.each_operands(l) if self.defs[l][0] == "&" else [l]) + [r]

    def nullable(self, v, seen=()):
        """can match the empty string (structural; conservative = True when unsure)"""
        if v in seen:
            return False
        op, a = self.defs[v]
        seen = seen + (v,)
        if op in ("Opt", "ZeroOrMore", "Empty", "~", "NotAny", "FollowedBy", "StringStart", "StringEnd", "LineEnd", "SkipTo"):
            return True
        if op == "Literal":
            return a[0] == ""
        if op in ("+", "-"):
            return self.nullable(a[0], seen) and self.nullable(a[1], seen)
        if op == "And":
            return all(self.nullable(x, seen) for x in a[0])
        if op in ("|", "^"):
            return self.nullable(a[0], seen) or self.nullable(a[1], seen)
        if op in ("MatchFirst", "Or"):
            return any(self.nullable(x, seen) for x in a[0])
        if op in ("Each", "&"):
            return all(self.nullable(x, seen) for x in self.each_operands(v))
        if op in ("OneOrMore", "Group", "Suppress", "copy", "Located", "Combine", "*"):
            return self.nullable(a[0], seen)
        if op == "Forward":
            b = self.fwd.get(v)
            return b is not None and self.nullable(b, seen)
        return False

    def each(self, operands, s, i, tight):
        """'&': the operands in any order, tried greedily in rounds (required ones first, then optional ones, then
        repeatable ones, each in declaration order); every operand that is not a repetition is used at most once and
        every required one exactly once; Opt operands that never matched contribute their default at the end"""
        req, mreq, opt, multi, again = [], [], [], [], []   # slots: (kind, operand variable, variable tried)
        for x in operands:
            op, a = self.defs[x]
            if op == "Opt":
                opt.append(("opt", x, a[0]))
            elif op in ("ZeroOrMore", "OneOrMore"):
                if len(a) > 1:
                    raise Unsupported("Each with stop_on repetition")
                if self.nullable(a[0]):
                    raise Unsupported("Each with nullable repetition body")
                if op == "OneOrMore":
                    mreq.append(("req", x, a[0]))
                multi.append(("multi", x, a[0]))
            else:
                req.append(("req", x, x))
                if self.nullable(x):
                    again.append(("again", x, x))
        req += mreq           # Each.required = the plain operands, then the bodies of the OneOrMore operands
        opt += again          # Each.optionals = the Opt operands, then the other operands that may match nothing
        order, loc = [], i
        while True:
            progressed = False
            for slot in req[:] + opt[:] + multi:
                if slot[0] == "again" and slot not in opt:
                    continue          # used up by a non-empty match earlier in this round
                r = self.ev(slot[2], s, loc, tight)
                if r is FAIL:
                    continue
                progressed = True
                loc_before, loc = loc, r[0]
                order.append(slot)
                if slot[0] == "req":
                    req.remove(slot)
                    # an empty match of a required operand that can match nothing is not its one occurrence yet;
                    # a non-empty one is
                    if r[0] > loc_before and not self.each_twice and ("again", slot[1], slot[2]) in opt:
                        opt.remove(("again", slot[1], slot[2]))
                elif slot[0] in ("opt", "again"):
                    opt.remove(slot)
                elif ("req", slot[1], slot[2]) in req:
                    req.remove(("req", slot[1], slot[2]))   # an occurrence of a OneOrMore operand satisfies it
            if not progressed:
                break
            if len(order) > 4 * (len(s) + 2) + 20:
                raise Unsupported("Each does not settle")
        if req:
            return FAIL
        toks, loc = [], i
        for kind, x, inner in order + [o for o in opt if o[0] == "opt"]:
            r = self.ev(x if kind == "opt" else inner, s, loc, tight)
            if r is FAIL:
                raise Unsupported("Each second pass differs")
            loc = r[0]
            toks += r[1]
        return loc, toks

    def body(self, v, op, a, s, i, tight, edge=False):
        """edge: this element is at the left edge of an expression that is being tried *without* leading skip (SkipTo
        target, content of Combine/Located); wrappers and the first element of a sequence inherit it"""
        n = len(s)
        kw = dict(a[1]) if len(a) > 1 and isinstance(a[1], dict) else {}
        if op == "Literal":
            if a[0] == "":
                return i, []
            return (i + len(a[0]), [a[0]]) if s.startswith(a[0], i) else FAIL
        if op == "CaselessLiteral":
            m = a[0]
            return (i + len(m), [m]) if s[i:i + len(m)].upper() == m.upper() and i + len(m) <= n else FAIL
        if op in ("Keyword", "CaselessKeyword"):
            m = a[0]
            cl = op == "CaselessKeyword"
            seg = s[i:i + len(m)]
            ok = (seg.upper() == m.upper()) if cl else (seg == m)
            idc = self.kw.upper() if cl else self.kw
            up = (lambda c: c.upper()) if cl else (lambda c: c)
            if not ok or i + len(m) > n:
                return FAIL
            if i > 0 and up(s[i - 1]) in idc:
                return FAIL
            if i + len(m) < n and up(s[i + len(m)]) in idc:
                return FAIL
            return i + len(m), [m]
        if op in ("Word", "Char"):
            init = a[0]
            body = kw.get("body") or init
            mn, mx, ex = kw.get("min", 1), kw.get("max", 0), kw.get("exact", 0)
            if op == "Char":
                mn = mx = 1
            if ex:
                mn = mx = ex
            if kw.get("as_keyword") or kw.get("exclude"):
                raise Unsupported("as_keyword/exclude")
            if i >= n or s[i] not in init:
                return FAIL
            j = i + 1
            while j < n and s[j] in body and (not mx or j - i < mx):
                j += 1
            if j - i < mn:
                return FAIL
            if mx and " " in (init + body) and j < n and s[j] in body:
                raise Unsupported("slow-path strict max (C17 finding region)")
            return j, [s[i:j]]
        if op == "CharsNotIn":
            mn, mx, ex = kw.get("min", 1), kw.get("max", 0), kw.get("exact", 0)
            if ex:
                mn = mx = ex
            j = i
            while j < n and s[j] not in a[0] and (not mx or j - i < mx):
                j += 1
            return (j, [s[i:j]]) if j - i >= max(mn, 1) else FAIL
        if op == "Empty":
            return i, []
        if op == "NoMatch":
            return FAIL
        if op == "StringStart":
            return (i, []) if i == 0 or (not tight and i == self.skip(s, 0)) else FAIL
        if op == "StringEnd":
            return (n + 1, []) if i == n else ((i, []) if i > n else FAIL)
        if op == "LineEnd":
            if i < n:
                return (i + 1, ["\n"]) if s[i] == "\n" else FAIL
            return (n + 1, []) if i == n else FAIL
        if op in ("+", "-"):
            return self.seq(self.flat_seq(v), s, i, tight, edge)
        if op == "And":
            return self.seq(list(a[0]), s, i, tight, edge)
        if op == "*":
            return self.seq([a[0]] * a[1], s, i, tight, edge)
        if op in ("|", "MatchFirst"):
            for x in (a[0] if op == "MatchFirst" else a[:2]):
                r = self.ev(x, s, i, tight)
                if r is not FAIL:
                    return r
            return FAIL
        if op in ("^", "Or"):
            best, fatals = FAIL, []
            for x in (a[0] if op == "Or" else a[:2]):
                try:
                    r = self.ev(x, s, i, tight)
                except Fatal as f:
                    fatals.append(f)
                    continue
                if r is not FAIL and (best is FAIL or r[0] > best[0]):
                    best = r
            if best is FAIL and fatals:
                raise max(fatals, key=lambda f: f.loc)   # raised only when no alternative matches
            return best
        if op in ("Each", "&"):
            try:
                return self.each(self.each_operands(v), s, i, tight)
            except Fatal:
                raise Unsupported("fatal inside Each")
        if op == "Opt":
            r = self.ev(a[0], s, i, tight, top_noskip=edge)
            if r is not FAIL:
                return r
            return i, ([a[1]] if len(a) > 1 else [])
        if op == "ZeroOrMore":
            return self.many(a[0], s, i, tight, 0, None, a[1] if len(a) > 1 else None)
        if op == "OneOrMore":
            stop = a[1] if len(a) > 1 else None
            if stop is not None and self.ev_soft(stop, s, i, False) is not FAIL:
                return FAIL
            return self.many(a[0], s, i, tight, 1, None, stop)
        if op in ("~", "NotAny"):
            return (i, []) if self.ev_soft(a[0], s, i, tight) is FAIL else FAIL
        if op == "FollowedBy":
            return (i, []) if self.ev(a[0], s, i, tight) is not FAIL else FAIL
        if op == "Group":
            r = self.ev(a[0], s, i, tight, top_noskip=edge)
            return FAIL if r is FAIL else (r[0], [r[1]])
        if op == "Suppress":
            r = self.ev(a[0], s, i, tight, top_noskip=edge)
            return FAIL if r is FAIL else (r[0], [])
        if op == "tight":    # expr.copy().leave_whitespace(): nothing inside skips
            return self.ev(a[0], s, i, True)
        if op == "copy":
            if self.seq_node(v) is not None:
                return self.seq(self.flat_seq(v), s, i, tight, edge)
            return self.ev(a[0], s, i, tight, top_noskip=edge)
        if op == "Located":
            r = self.ev(a[0], s, i, tight, top_noskip=True)
            return FAIL if r is FAIL else (r[0], [i, r[1], r[0]])
        if op == "Combine":
            adj = kw.get("adjacent", True)
            r = self.ev(a[0], s, i, tight or adj, top_noskip=True)
            if r is FAIL:
                return FAIL
            # one string per top-level token (nested groups flattened without separator), joined by join_string
            return r[0], [kw.get("join", "").join("".join(self.flat([t])) for t in r[1])]
        if op == "SkipTo":
            fo = kw.get("fail_on")
            if kw.get("ignore"):
                raise Unsupported("SkipTo ignore")
            k = i
            while k <= n:
                if fo and self.ev_soft(fo, s, k, False) is not FAIL:
                    return FAIL
                r = self.ev(a[0], s, k, tight, top_noskip=True)
                if r is not FAIL:
                    if kw.get("include"):
                        return r[0], [s[i:k]] + r[1]
                    return k, [s[i:k]]
                k += 1
            return FAIL
        if op == "Forward":
            if tight:
                # Forward.leave_whitespace() does not reach the Forward's expression: alternatives inside it keep
                # skipping whitespace although they sit in a Combine(adjacent) region (registered C09 finding)
                raise Unsupported("Forward inside Combine")
            b = self.fwd.get(v)
            return FAIL if b is None else self.ev(b, s, i, tight, top_noskip=edge)
        raise Unsupported(op)

    def flat(self, toks):
        out = []
        for t in toks:
            out += self.flat(t) if isinstance(t, list) else [str(t)]
        return out

    def parse(self, root, s):
        """outcome of parse_string(s): ("ok", tokens) | ("fail",)"""
        self.steps = 0
        try:
            r = self.ev(root, s.expandtabs(), 0)
        except Fatal:
            return ("fatal",)
        return ("fail",) if r is FAIL else ("ok", r[1])
