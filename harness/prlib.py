"""Shared helpers of the ParseResults checks (C10, C11): JSON-able descriptors of values / start
objects / operations, builders that turn them into real pyparsing objects, the canonical
(view-based, public-API-only) form of values, the extraction of the model's start state, and the
independent oracle `Spec` (a plain Python list + an ordered multimap + the set of list-all names).
"""
from __future__ import annotations

from .sexp import Sym, dumps

ERRS = (IndexError, KeyError, TypeError, ValueError, AttributeError)


# ------------------------------------------------------------------------------------------------
# canonical form of a value (public API only; never repr / ids / private attributes)
# ------------------------------------------------------------------------------------------------
def canon(pp, v, depth=0):
    PR = pp.ParseResults
    if depth > 12:
        return Sym("deep")
    if isinstance(v, PR):
        keys = list(v.keys())
        return [Sym("pr"), [canon(pp, t, depth + 1) for t in v], [[str(k), canon(pp, v[k], depth + 1)] for k in keys]]
    if isinstance(v, str):
        return v
    if isinstance(v, bool):
        return [Sym("b"), v]
    if isinstance(v, int):
        return [Sym("i"), v]
    if v is None:
        return Sym("None")
    if isinstance(v, list):
        return [Sym("l")] + [canon(pp, t, depth + 1) for t in v]
    if isinstance(v, tuple):
        return [Sym("t")] + [canon(pp, t, depth + 1) for t in v]
    if isinstance(v, float):
        return [Sym("f"), repr(v)]
    return [Sym("obj"), type(v).__name__]


def aslist_of_canon(c):
    """what as_list() must be, computed from the canonical token list"""
    if isinstance(c, list) and c and c[0] == "pr" and isinstance(c[0], Sym):
        return [aslist_of_canon(t) for t in c[1]]
    if isinstance(c, list) and c and isinstance(c[0], Sym):
        tag = c[0]
        if tag == "i":
            return c[1]
        if tag == "b":
            return c[1]
        if tag == "l":
            return [aslist_of_canon(t) for t in c[1:]]
        if tag == "t":
            return tuple(aslist_of_canon(t) for t in c[1:])
        if tag == "f":
            return float(c[1])
        return c
    if isinstance(c, Sym) and c == "None":
        return None
    return c


def aslist_plain(pp, v):
    """as_list() result normalised the same way (nested plain lists stay lists)"""
    return v


# ------------------------------------------------------------------------------------------------
# grammars that produce the start objects
# ------------------------------------------------------------------------------------------------
def grammars(pp):
    W = lambda: pp.Word("ab")
    N = lambda: pp.Word("01")
    I = lambda: pp.Word("23").set_parse_action(lambda t: int(t[0]))
    G = pp.Group
    return {
        "plain": (lambda: W() + N() + W(), ["a 0 b", "ab 01 ba"]),
        "names": (lambda: W()("x") + N()("y"), ["a 0", "ab 10"]),
        "dupname": (lambda: W()("x") + N() + W()("x") + N()("y"), ["a 0 b 1", "ab 1 ba 0"]),
        "listall": (lambda: W()("x*") + N()("x*") + W()("y"), ["a 0 b", "b 11 ab"]),
        "group": (lambda: G(W()("a1") + N()("b1"))("g") + W()("x"), ["a 0 b", "ab 1 a"]),
        "recs": (lambda: pp.OneOrMore(G(W()("k") + N()("v"))("rec*")), ["a 0", "a 0 b 1", "a 0 b 1 ab 01"]),
        "mixed": (lambda: pp.OneOrMore(W()("x*") | N()("n")), ["a", "a 0 b", "0 a 1 b 0", "0 1"]),
        "optrep": (lambda: pp.Opt(W())("o") + N()[...]("ns"), ["a 0 1", "0 1 0", "a", ""]),
        "dict": (lambda: pp.Dict(pp.OneOrMore(G(W() + N()))), ["a 0 b 1", "ab 1"]),
        "nested": (lambda: G(W()("x") + G(N()("y") + N()("y*"))("in"))("out*") + W()("x"), ["a 0 1 b", "b 1 1 a"]),
        "ints": (lambda: I()("n*")[1, ...] + W()("w"), ["2 3 a", "23 a", "3 2 3 b"]),
        "aslist": (lambda: G(W()[...], aslist=True)("lst") + N()("n"), ["a b 0", "0"]),
        "starwrap": (lambda: (W()("x*") + W()("x*"))("y*"), ["a b"]),
        "optstar": (lambda: W()("x") + pp.Opt(N())("x*"), ["a 0", "a"]),
        "groupstar": (lambda: pp.OneOrMore(G(W() + N()[...])("g*")) + pp.Opt(pp.Literal("!"))("bang"), ["a 0 1 b", "a b 0 !", "a"]),
        "emptynamed": (lambda: pp.Opt(W())("o*") + pp.Opt(N())("p"), ["", "a", "0"]),
    }


_GRAMMAR_CACHE = {}


def parse_start(pp, gname, text):
    key = (id(pp), gname)
    if key not in _GRAMMAR_CACHE:
        _GRAMMAR_CACHE[key] = grammars(pp)[gname][0]()
    return _GRAMMAR_CACHE[key].parse_string(text, parse_all=True)


# ------------------------------------------------------------------------------------------------
# descriptors -> real objects
# ------------------------------------------------------------------------------------------------
def build_value(pp, d):
    """value descriptor: {"s": str} | {"i": int} | {"none": 1} | {"l": [descs]} | {"pr": start-desc}"""
    if "s" in d:
        return d["s"]
    if "i" in d:
        return d["i"]
    if "none" in d:
        return None
    if "l" in d:
        return [build_value(pp, x) for x in d["l"]]
    if "pr" in d:
        return build_start(pp, d["pr"])
    raise ValueError(d)


def build_ctor_arg(pp, a):
    if a is None:
        return None
    if "list" in a:
        return [build_value(pp, x) for x in a["list"]]
    if "scalar" in a:
        return build_value(pp, a["scalar"])
    raise ValueError(a)


def build_start(pp, d):
    """start descriptor: {"parse": [gname, text]} | {"ctor": [arg, name, asList, modal]}
    | {"reinit": [start, name, asList, modal]} | {"hist": [start, ops]} (start put through ops)"""
    PR = pp.ParseResults
    if "parse" in d:
        return parse_start(pp, *d["parse"])
    if "ctor" in d:
        arg, name, as_list, modal = d["ctor"]
        return PR(build_ctor_arg(pp, arg), name, asList=as_list, modal=modal)
    if "reinit" in d:
        st, name, as_list, modal = d["reinit"]
        return PR(build_start(pp, st), name, asList=as_list, modal=modal)
    if "hist" in d:
        r = build_start(pp, d["hist"][0])
        for op in d["hist"][1]:
            try:
                r, _ = apply_real(pp, r, op)
            except ERRS:
                pass
        return r
    raise ValueError(d)


# ------------------------------------------------------------------------------------------------
# model start state (needs the hidden earlier values of ordinary names and the list-all set, which no
# public accessor shows: read through the pickle protocol `__getstate__`)
# ------------------------------------------------------------------------------------------------
def extract_state(pp, r):
    toks, (tokdict, _par, all_names, _name) = r.__getstate__()
    ents = []
    for k, occs in tokdict.items():
        ents.append([str(k), [[canon(pp, o[0]), int(o[1])] for o in occs]])
    return {"toks": [canon(pp, t) for t in toks], "dict": ents, "all": sorted(str(n) for n in all_names)}


def state_sexp(st):
    return [Sym("state"), st["toks"], st["dict"], st["all"]]


def val_sexp(pp, d):
    return canon(pp, build_value(pp, d))


def ctor_arg_sexp(pp, a):
    if a is None:
        return Sym("None")
    if "list" in a:
        return [Sym("list")] + [val_sexp(pp, x) for x in a["list"]]
    v = a["scalar"]
    return [Sym("scalar"), val_sexp(pp, v), "s" in v]


def start_sexp(pp, d):
    """protocol form of a start descriptor; parse results are passed as extracted states, constructor
    calls are passed as constructor calls (the model runs its own `ctor` / `reinit`)"""
    if "ctor" in d:
        arg, name, as_list, modal = d["ctor"]
        nm = Sym("None") if name is None else str(name)
        return [Sym("ctor"), ctor_arg_sexp(pp, arg), nm, bool(as_list), bool(modal)]
    if "reinit" in d:
        st, name, as_list, modal = d["reinit"]
        nm = Sym("None") if name is None else str(name)
        return [Sym("reinit"), start_sexp(pp, st), nm, bool(as_list), bool(modal)]
    return state_sexp(extract_state(pp, build_start(pp, d)))


# ------------------------------------------------------------------------------------------------
# operations
# ------------------------------------------------------------------------------------------------
def _sl(a, b, c):
    return slice(a, b, c)


def _o(x):
    return Sym("None") if x is None else x


def apply_real(pp, r, op):
    """apply op to the real object; returns (r, canonical out); exceptions propagate"""
    k = op[0]
    c = lambda v: canon(pp, v)
    bv = lambda d: build_value(pp, d)
    val = lambda v: [Sym("val"), c(v)]
    lst = lambda vs: [Sym("list")] + [c(v) for v in vs]
    if k == "getint":
        return r, val(r[op[1]])
    if k == "getslice":
        return r, lst(r[_sl(*op[1:4])])
    if k == "getname":
        return r, val(r[op[1]])
    if k == "getattr":
        return r, val(getattr(r, op[1]))
    if k == "get":
        # get(n) is get(n, None): the caller cannot tell a stored None from the default
        v = r.get(op[1]) if len(op) == 2 else r.get(op[1], bv(op[2]))
        return r, val(v)
    if k == "setint":
        r[op[1]] = bv(op[2])
        return r, Sym("None")
    if k == "setslice":
        r[_sl(*op[1:4])] = [bv(x) for x in op[4]]
        return r, Sym("None")
    if k == "setname":
        r[op[1]] = bv(op[2])
        return r, Sym("None")
    if k == "delint":
        del r[op[1]]
        return r, Sym("None")
    if k == "delslice":
        del r[_sl(*op[1:4])]
        return r, Sym("None")
    if k == "delname":
        del r[op[1]]
        return r, Sym("None")
    if k == "pop":
        return r, val(r.pop())
    if k == "popint":
        return r, val(r.pop(op[1]) if len(op) == 2 else r.pop(op[1], bv(op[2])))
    if k == "popname":
        if len(op) == 2:
            return r, val(r.pop(op[1]))
        if len(op) > 3 and op[3] == "kw":
            return r, val(r.pop(op[1], default=bv(op[2])))
        return r, val(r.pop(op[1], bv(op[2])))
    if k == "popbadkw":
        return r, val(r.pop(0, **{"defualt": 1}))      # unexpected keyword -> TypeError
    if k == "setslicescalar":
        r[_sl(*op[1:4])] = 5                            # not iterable -> TypeError (ValueError for step 0)
        return r, Sym("None")
    if k == "insert":
        r.insert(op[1], bv(op[2]))
        return r, Sym("None")
    if k == "append":
        r.append(bv(op[1]))
        return r, Sym("None")
    if k == "extendlist":
        r.extend([bv(x) for x in op[1]])
        return r, Sym("None")
    if k == "extendpr":
        r.extend(build_start(pp, op[1]))
        return r, Sym("None")
    if k == "iadd":
        r += build_start(pp, op[1])
        return r, Sym("None")
    if k == "clear":
        r.clear()
        return r, Sym("None")
    if k == "contains":
        return r, (op[1] in r)
    if k == "len":
        return r, len(r)
    if k == "bool":
        return r, bool(r)
    if k == "iter":
        return r, lst(list(iter(r)))
    if k == "reversed":
        return r, lst(list(reversed(r)))
    if k == "keys":
        return r, [Sym("list")] + [str(x) for x in r.keys()]
    if k == "values":
        return r, lst(list(r.values()))
    if k == "items":
        return r, [Sym("list")] + [[str(a), c(b)] for a, b in r.items()]
    if k == "haskeys":
        return r, r.haskeys()
    raise ValueError(op)


def op_sexp(pp, op):
    k = op[0]
    vs = lambda d: val_sexp(pp, d)
    if k in ("getint", "delint"):
        return [Sym(k), op[1]]
    if k in ("getslice", "delslice", "setslicescalar"):
        return [Sym(k), _o(op[1]), _o(op[2]), _o(op[3])]
    if k in ("getname", "getattr", "delname", "contains"):
        return [Sym(k), op[1]]
    if k == "get":
        return [Sym(k), op[1]] + ([vs(op[2])] if len(op) > 2 else [Sym("None")])
    if k in ("setint", "insert"):
        return [Sym(k), op[1], vs(op[2])]
    if k == "setslice":
        return [Sym(k), _o(op[1]), _o(op[2]), _o(op[3]), [vs(x) for x in op[4]]]
    if k == "setname":
        return [Sym(k), op[1], vs(op[2])]
    if k == "popint":
        return [Sym(k), op[1]] + ([vs(op[2])] if len(op) > 2 else [])
    if k == "popname":
        return [Sym(k), op[1]] + ([vs(op[2])] if len(op) > 2 else [])
    if k == "append":
        return [Sym(k), vs(op[1])]
    if k == "extendlist":
        return [Sym(k), [vs(x) for x in op[1]]]
    if k in ("extendpr", "iadd"):
        return [Sym(k), state_sexp(extract_state(pp, build_start(pp, op[1])))]
    return [Sym(k)]


def views_real(pp, r):
    """the observables compared after every operation (public API only)"""
    toks = [canon(pp, t) for t in r]
    keys = [str(k) for k in r.keys()]
    items = [[k, canon(pp, r[k])] for k in keys]
    out = [toks, keys, items, bool(r), len(r)]
    # internal consistency of the accessors the property lists (reported inside the canonical form)
    probs = []
    try:
        al = r.as_list()
        if al != [aslist_of_canon(t) for t in toks]:
            probs.append("as_list() != list view")
        if [str(a) for a, _ in r.items()] != keys or [canon(pp, b) for _, b in r.items()] != [v for _, v in items]:
            probs.append("items() != [(k, r[k])]")
        if [canon(pp, b) for b in r.values()] != [v for _, v in items]:
            probs.append("values() != [r[k]]")
        for k, v in items:
            if canon(pp, r.get(k)) != v:
                probs.append(f"get({k!r}) != r[{k!r}]")
            if k not in r:
                probs.append(f"{k!r} not in r")
        if len(toks) != len(r) or [canon(pp, t) for t in reversed(r)] != toks[::-1]:
            probs.append("len/reversed != list view")
        if r.haskeys() != bool(keys):
            probs.append("haskeys() != bool(keys)")
    except ERRS as e:
        probs.append(f"accessor raised {type(e).__name__}")
    if probs:
        out.append([Sym("inconsistent")] + probs)
    return out


def run_real(pp, start, ops):
    """canonical trace of the real code: list of steps, same shape as the model driver's output"""
    try:
        r = build_start(pp, start)
    except ERRS as e:
        return [Sym("ctor-err"), Sym(type(e).__name__)]
    trace = [[Sym("start")] + views_real(pp, r)]
    for op in ops:
        try:
            r, out = apply_real(pp, r, op)
        except ERRS as e:
            out = [Sym("err"), Sym(type(e).__name__)]
        trace.append([out] + views_real(pp, r))
    return trace


# ------------------------------------------------------------------------------------------------
# the oracle: a plain Python list + an ordered multimap + the set of list-all names
# (independent of the Lean model; works on canonical values)
# ------------------------------------------------------------------------------------------------
class Spec:
    def __init__(self, toks, names, la):
        self.toks = list(toks)
        self.names = {k: list(v) for k, v in names.items()}  # insertion ordered: name -> all values in order
        self.la = set(la)

    @classmethod
    def of_state(cls, st):
        return cls(st["toks"], {k: [o[0] for o in occs] for k, occs in st["dict"]}, st["all"])

    @classmethod
    def of_real(cls, pp, r):
        return cls.of_state(extract_state(pp, r))

    @classmethod
    def of_start(cls, pp, d):
        """oracle for start descriptors: `ParseResults(existing, name, asList, modal)` is computed here (the name gets
        one more value, becomes list-all iff not modal, everything else is kept: PP.PR.reinit_refines); parse results
        and fresh constructor calls are read off the real object"""
        if "reinit" in d:
            st, name, as_list, modal = d["reinit"]
            sp = cls.of_start(pp, st)
            if name is None or name == "":
                return sp
            name = str(name)
            if not modal:
                sp.la.add(name)
            if as_list:
                sp.names.setdefault(name, []).append([Sym("pr"), list(sp.toks), []])
            elif sp.toks:
                sp.names.setdefault(name, []).append(sp.toks[0])
            return sp
        return cls.of_real(pp, build_start(pp, d))

    def view(self, n):
        if n not in self.names:
            raise KeyError(n)
        if n in self.la:
            return [Sym("pr"), list(self.names[n]), []]
        return self.names[n][-1]

    def views(self):
        keys = list(self.names)
        return [list(self.toks), keys, [[k, self.view(k)] for k in keys], bool(self.toks) or bool(self.names),
                len(self.toks)]

    def merge(self, o):
        self.toks.extend(o.toks)
        for k, vs in o.names.items():
            self.names.setdefault(k, []).extend(vs)
        self.la |= o.la

    def apply(self, pp, op):
        k = op[0]
        vs = lambda d: val_sexp(pp, d)
        val = lambda v: [Sym("val"), v]
        none = Sym("None")
        t = self.toks
        if k == "getint":
            return val(t[op[1]])
        if k == "getslice":
            return [Sym("list")] + t[slice(*op[1:4])]
        if k == "getname":
            return val(self.view(op[1]))
        if k == "getattr":
            if op[1] in self.names:
                return val(self.view(op[1]))
            if op[1].startswith("__"):
                raise AttributeError(op[1])
            return val("")
        if k == "get":
            if op[1] in self.names:
                return val(self.view(op[1]))
            return val(vs(op[2])) if len(op) > 2 else val(none)
        if k == "setint":
            t[op[1]] = vs(op[2])
            return none
        if k == "setslice":
            t[slice(*op[1:4])] = [vs(x) for x in op[4]]
            return none
        if k == "setname":
            self.names.setdefault(op[1], []).append(vs(op[2]))
            return none
        if k == "delint":
            del t[op[1]]
            return none
        if k == "delslice":
            del t[slice(*op[1:4])]
            return none
        if k == "delname":
            del self.names[op[1]]
            return none
        if k == "pop":
            return val(t.pop())
        if k == "popint":
            return val(t.pop(op[1]))
        if k == "popname":
            if op[1] in self.names or len(op) == 2:
                v = self.view(op[1])
                del self.names[op[1]]
                return val(v)
            return val(vs(op[2]))
        if k == "popbadkw":
            raise TypeError("pop() got an unexpected keyword argument")
        if k == "setslicescalar":
            t[slice(*op[1:4])] = 5
            return none
        if k == "insert":
            t.insert(op[1], vs(op[2]))
            return none
        if k == "append":
            t.append(vs(op[1]))
            return none
        if k == "extendlist":
            t.extend(vs(x) for x in op[1])
            return none
        if k in ("extendpr", "iadd"):
            self.merge(Spec.of_start(pp, op[1]))
            return none
        if k == "clear":
            t.clear()
            self.names.clear()
            return none
        if k == "contains":
            return op[1] in self.names
        if k == "len":
            return len(t)
        if k == "bool":
            return bool(t) or bool(self.names)
        if k == "iter":
            return [Sym("list")] + list(t)
        if k == "reversed":
            return [Sym("list")] + list(reversed(t))
        if k == "keys":
            return [Sym("list")] + list(self.names)
        if k == "values":
            return [Sym("list")] + [self.view(n) for n in self.names]
        if k == "items":
            return [Sym("list")] + [[n, self.view(n)] for n in self.names]
        if k == "haskeys":
            return bool(self.names)
        raise ValueError(op)


def run_spec(pp, start, ops):
    try:
        r = build_start(pp, start)
    except ERRS as e:
        return [Sym("ctor-err"), Sym(type(e).__name__)]
    sp = Spec.of_start(pp, start)
    trace = [[Sym("start")] + sp.views()]
    for op in ops:
        try:
            out = sp.apply(pp, op)
        except ERRS as e:
            out = [Sym("err"), Sym(type(e).__name__)]
        trace.append([out] + sp.views())
    return trace


def first_diff(a, b):
    """index of the first differing step of two traces (or None)"""
    if a == b:
        return None
    if not (isinstance(a, list) and isinstance(b, list)):
        return 0
    for i, (x, y) in enumerate(zip(a, b)):
        if x != y:
            return i
    return min(len(a), len(b))


def other_in_shortcut_region(pp, r, other):
    """`__iadd__` returns early for a falsy `other`; that differs from a merge exactly when `other`
    carries list-all names that `r` does not have (registered finding iadd_falsy_other_drops_listall)"""
    if bool(other):
        return False
    oa = set(other.__getstate__()[1][2])
    ra = set(r.__getstate__()[1][2])
    return not oa <= ra


def tr(x):
    return dumps(x)
