"""Grammar *programs* (the case language), their execution through pyparsing's real public API, and the
extraction of the resulting object graph into the node table the Lean parse model interprets.

A program is a JSON-able list of statements; each statement defines a variable:
    ["e0", "Word", "ab"]                     pp.Word("ab")
    ["e1", "Word", "a", {"body": "b", "min": 1, "max": 0, "exact": 0, "as_keyword": false}]
    ["e2", "Literal", "x"]    ["e3", "Keyword", "ab"]   ["e4", "CaselessLiteral", "ab"] ["e5","CaselessKeyword","ab"]
    ["e6", "CharsNotIn", "b ", {"min":1,"max":0}]        ["e7", "Empty"] ["e8","NoMatch"] ["e9","StringEnd"] ...
    ["s0", "+", "e0", "e1"]   ["s1", "-", "e0", "e1"]   ["a0", "|", ..]   ["o0", "^", ..]   (binary operators)
    ["s2", "And", ["e0","e1","e2"]]  (constructor with a list; also MatchFirst / Or)
    ["r0", "Opt", "e0"] / ["r0", "Opt", "e0", "dflt"]    ["r1", "ZeroOrMore", "e0"] / [.., "stop"]   ["r2","OneOrMore",..]
    ["r3", "[]", "e0", [m, n]]   (e0[m, n]; n may be null for ...)     ["r4", "*", "e0", 3]
    ["n0", "~", "e0"] ["n1","FollowedBy","e0"] ["g0","Group","e0"] ["g1","Suppress","e0"] ["g2","Combine","e0", {"join":"","adjacent":true}]
    ["k0", "SkipTo", "e0", {"include": false, "fail_on": null|"var", "ignore": null|"var"}]
    ["d0", "DelimitedList", "e0", {"delim": ",", "combine": false, "min": null, "max": null, "trailing": false}]
    ["l0", "Located", "e0"]
    ["f0", "Forward"]   ["_", "<<=", "f0", "e3"]
    ["c0", "copy", "e0"] ["c1", "name", "e0", "nm"] ["c2", "leave_whitespace", "e0"] ["_", "ignore", "e0", "cmt"]
    ["_", "action", "e0", ["const","X"]]   ["_", "condition", "e0", false, {"fatal": true}]  ["_", "call_during_try", "e0"]
    ["w0", "set_whitespace_chars", "e0", " \t"]
    ["x0", "infix_notation", "e0", [[op, arity, "L"|"R"] | [op, arity, assoc, [action tags]] ...], {"lpar": P, "rpar": P}]
         op = "str" | {"var": name} | [op, op] (arity 3);  P = "str" | {"lit": "("} (kept Literal) | {"sup": "("} | {"var": name}
Statements whose first element is "_" mutate an existing variable and define nothing.
"""
from __future__ import annotations

from .sexp import Sym, dumps

MAX_INT_SENTINEL = None


class Unsupported(Exception):
    """the object graph contains something the parse model does not cover"""


# ---------------------------------------------------------------------------------------------------
# parse-action library (mirrors PP.Parse.Act / runActs)
# ---------------------------------------------------------------------------------------------------
def make_action(pp, tag):
    kind = tag[0]
    if kind == "none":
        return lambda s, l, t: None
    if kind == "const":
        v = tag[1]
        return lambda s, l, t: [v]
    if kind == "drop":
        return lambda s, l, t: []
    if kind == "rev":
        return lambda s, l, t: list(t)[::-1]
    if kind == "dup":
        return lambda s, l, t: list(t) + list(t)
    if kind == "app":
        v = tag[1]
        return lambda s, l, t: t.append(v)
    if kind == "failP":
        def f(s, l, t):
            raise pp.ParseException(s, l, "action failP")
        return f
    if kind == "failF":
        def f(s, l, t):
            raise pp.ParseFatalException(s, l, "action failF")
        return f
    if kind == "failSub":      # oracle-only: an application-defined subclass of ParseException
        sub = type("OutOfRange", (pp.ParseException,), {})

        def f(s, l, t):
            raise sub(s, l, "action failSub")
        return f
    raise ValueError(tag)


class Built:
    def __init__(self, pp):
        self.pp = pp
        self.env = {}
        self.act_tags = {}  # id(wrapper in parseAction) -> tag (list)
        self._keep = []  # keep wrappers alive so ids stay unique


def build(pp, prog, use_hook=None) -> Built:
    """execute a program with the real public API.
    use_hook(b, var, expr, payload): called for ["_", "use", var, payload] statements (C12: parse with an
    expression in the middle of a composition sequence); without a hook those statements do nothing."""
    b = Built(pp)
    env = b.env

    def ref(x):
        return env[x] if isinstance(x, str) and x in env else x

    for st in prog:
        var, op, *a = st
        if op == "Word":
            kw = dict(a[1]) if len(a) > 1 else {}
            v = pp.Word(a[0], kw.get("body"), min=kw.get("min", 1), max=kw.get("max", 0), exact=kw.get("exact", 0),
                        as_keyword=kw.get("as_keyword", False), exclude_chars=kw.get("exclude"))
        elif op == "Char":
            v = pp.Char(a[0])
        elif op in ("Literal", "Keyword", "CaselessLiteral", "CaselessKeyword"):
            v = getattr(pp, op)(a[0])
        elif op == "CharsNotIn":
            kw = dict(a[1]) if len(a) > 1 else {}
            v = pp.CharsNotIn(a[0], min=kw.get("min", 1), max=kw.get("max", 0), exact=kw.get("exact", 0))
        elif op in ("Empty", "NoMatch", "StringStart", "StringEnd", "LineStart", "LineEnd", "Forward"):
            v = getattr(pp, op)()
        elif op in ("WordStart", "WordEnd"):
            v = getattr(pp, op)(a[0]) if a else getattr(pp, op)()
        elif op == "+":
            v = ref(a[0]) + ref(a[1])
        elif op == "-":
            v = ref(a[0]) - ref(a[1])
        elif op == "|":
            v = ref(a[0]) | ref(a[1])
        elif op == "^":
            v = ref(a[0]) ^ ref(a[1])
        elif op in ("And", "MatchFirst", "Or"):
            v = getattr(pp, op)([ref(x) for x in a[0]])
        elif op == "Opt":
            v = pp.Opt(ref(a[0]), a[1]) if len(a) > 1 else pp.Opt(ref(a[0]))
        elif op in ("ZeroOrMore", "OneOrMore"):
            v = getattr(pp, op)(ref(a[0]), stop_on=ref(a[1])) if len(a) > 1 and a[1] is not None else getattr(pp, op)(ref(a[0]))
        elif op == "[]":
            m, n = a[1]
            v = ref(a[0])[m, (... if n is None else n)]
        elif op == "[...]":
            v = ref(a[0])[...]
        elif op == "[n]":
            v = ref(a[0])[a[1]]
        elif op == "*":
            v = ref(a[0]) * (tuple(a[1]) if isinstance(a[1], list) else a[1])
        elif op == "~":
            v = ~ref(a[0])
        elif op in ("FollowedBy", "NotAny", "Group", "Suppress", "Located"):
            v = getattr(pp, op)(ref(a[0]))
        elif op == "Combine":
            kw = dict(a[1]) if len(a) > 1 else {}
            v = pp.Combine(ref(a[0]), kw.get("join", ""), adjacent=kw.get("adjacent", True))
        elif op == "SkipTo":
            kw = dict(a[1]) if len(a) > 1 else {}
            v = pp.SkipTo(ref(a[0]), include=kw.get("include", False),
                          ignore=ref(kw["ignore"]) if kw.get("ignore") else None,
                          fail_on=ref(kw["fail_on"]) if kw.get("fail_on") else None)
        elif op == "DelimitedList":
            kw = dict(a[1]) if len(a) > 1 else {}
            v = pp.DelimitedList(ref(a[0]), delim=ref(kw.get("delim", ",")), combine=kw.get("combine", False),
                                 min=kw.get("min"), max=kw.get("max"), allow_trailing_delim=kw.get("trailing", False))
        elif op == "<<=":
            f = ref(a[0])
            f <<= ref(a[1])
            continue
        elif op == "copy":
            v = ref(a[0]).copy()
        elif op == "name":
            v = ref(a[0])(a[1])
        elif op == "leave_whitespace":
            v = ref(a[0]).copy().leave_whitespace()
        elif op == "set_whitespace_chars":
            v = ref(a[0]).copy().set_whitespace_chars(a[1])
        elif op == "ignore":
            ref(a[0]).ignore(ref(a[1]))
            continue
        elif op == "action":
            e = ref(a[0])
            n0 = len(e.parseAction)
            e.add_parse_action(make_action(pp, a[1]))
            for w in e.parseAction[n0:]:
                b.act_tags[id(w)] = list(a[1])
                b._keep.append(w)
            continue
        elif op == "condition":
            e = ref(a[0])
            kw = dict(a[2]) if len(a) > 2 else {}
            n0 = len(e.parseAction)
            vals = [bool(x) for x in a[1]] if isinstance(a[1], list) else [bool(a[1])]   # several functions in ONE call
            e.add_condition(*[((lambda s, l, t: True) if v_ else (lambda s, l, t: False)) for v_ in vals], fatal=kw.get("fatal", False))
            for w, v_ in zip(e.parseAction[n0:], vals):
                b.act_tags[id(w)] = ["condTrue"] if v_ else ["condFalse", bool(kw.get("fatal", False))]
                b._keep.append(w)
            continue
        elif op == "cond_len":      # oracle-only: a condition that LOOKS at the tokens (not in the model's action library)
            kw = dict(a[2]) if len(a) > 2 else {}
            ref(a[0]).add_condition((lambda k: (lambda t: len(t) == k))(a[1]), call_during_try=kw.get("call_during_try", False))
            continue
        elif op == "set_name":
            ref(a[0]).set_name(a[1])
            continue
        elif op == "call_during_try":
            ref(a[0]).callDuringTry = True
            continue
        elif op == "parse_with_tabs":
            ref(a[0]).parse_with_tabs()
            continue
        # ---- C12: the remaining operator sugar / naming forms -----------------------------------------
        elif op == "...":           # a + ... + b
            v = ref(a[0]) + ... + ref(a[1])
        elif op == "AndL":          # And([...]) where a null element stands for Ellipsis
            v = pp.And([(... if x is None else ref(x)) for x in a[0]])
        elif op == "[:]":           # a[...:stop] (m null) / a[m, ...:stop]
            v = ref(a[0])[...:ref(a[2])] if a[1] is None else ref(a[0])[a[1], ...:ref(a[2])]
        elif op == "|''":
            v = ref(a[0]) | ""
        elif op == "&":
            v = ref(a[0]) & ref(a[1])
        elif op == "Each":
            v = pp.Each([ref(x) for x in a[0]])
        elif op == "alias":         # another name for the same object
            v = ref(a[0])
        elif op == "call":          # expr()
            v = ref(a[0])()
        elif op == "set_results_name":
            if len(a) > 3 and a[3] == "camel":      # the pre-PEP8 spelling of the keyword
                v = ref(a[0]).set_results_name(a[1], listAllMatches=bool(a[2]))
            else:
                v = ref(a[0]).set_results_name(a[1], list_all_matches=bool(a[2]) if len(a) > 2 else False)
        elif op == "lw_inplace":    # documented in-place mutator of the (fresh) composite itself
            ref(a[0]).leave_whitespace()
            continue
        elif op == "iw_inplace":
            ref(a[0]).ignore_whitespace()
            continue
        elif op == "swc_inplace":   # set_whitespace_chars on the object itself (C12 histories)
            ref(a[0]).set_whitespace_chars(a[1])
            continue
        elif op == "streamline":
            ref(a[0]).streamline()
            continue
        elif op == "use":
            if use_hook is not None:
                use_hook(b, a[0], ref(a[0]), a[1] if len(a) > 1 else None)
            continue
        elif op == "infix_notation":
            def opx(x):
                if isinstance(x, dict):
                    if "var" in x:
                        return env[x["var"]]
                    if "lit" in x:
                        return pp.Literal(x["lit"])
                    if "sup" in x:
                        return pp.Suppress(pp.Literal(x["sup"]))
                    raise ValueError(x)
                if isinstance(x, list):
                    return tuple(opx(y) for y in x)
                return x
            levels = []
            for lv in a[1]:
                spec = [opx(lv[0]), lv[1], {"L": pp.OpAssoc.LEFT, "R": pp.OpAssoc.RIGHT}[lv[2]]]
                if len(lv) > 3 and lv[3]:
                    fns = []
                    for tag in lv[3]:
                        fns.append((make_action(pp, tag), tag))
                    spec.append(tuple(f for f, _ in fns))
                levels.append((tuple(spec), lv[3] if len(lv) > 3 else None))
            kw = dict(a[2]) if len(a) > 2 else {}
            pars = {}
            if "lpar" in kw:
                pars["lpar"] = opx(kw["lpar"])
            if "rpar" in kw:
                pars["rpar"] = opx(kw["rpar"])
            v = pp.infix_notation(ref(a[0]), [sp for sp, _ in levels], **pars)
            if any(tags for _, tags in levels):
                # infix_notation wraps the functions itself (set_parse_action -> _trim_arity): recover the library tag
                # of each wrapper from its behaviour on a probe
                for x in [y for y in _walk_all(v) if type(y) is pp.And and y.parseAction]:
                    for w in x.parseAction:
                        if id(w) not in b.act_tags:
                            b.act_tags[id(w)] = _probe_tag(pp, w)
                            b._keep.append(w)
        else:
            raise ValueError(f"unknown statement {st!r}")
        env[var] = v
    return b


def _walk_all(root):
    seen, todo, out = set(), [root], []
    while todo:
        x = todo.pop()
        if id(x) in seen:
            continue
        seen.add(id(x))
        out.append(x)
        todo.extend(x.recurse())
    return out


def _probe_tag(pp, w):
    """library tag of a wrapped parse action, recovered from its behaviour on a probe token list"""
    probe = pp.ParseResults(["p", "q"])
    try:
        r = w("pq", 0, probe)
    except pp.ParseFatalException:
        return ["failF"]
    except pp.ParseException:
        return ["failP"]
    if r is None:
        return ["app", probe.as_list()[2]] if len(probe) == 3 else ["none"]
    r = list(r)
    if r == []:
        return ["drop"]
    if r == ["q", "p"]:
        return ["rev"]
    if r == ["p", "q", "p", "q"]:
        return ["dup"]
    if len(r) == 1 and isinstance(r[0], str):
        return ["const", r[0]]
    raise Unsupported("foreign parse action")


def is_fb(pp, e):
    """the captive `_FB` class of infix_notation (helpers.py:807-811): a FollowedBy subclass with its own parseImpl"""
    t = type(e)
    return t is not pp.FollowedBy and issubclass(t, pp.FollowedBy) and "parseImpl" in t.__dict__


# ---------------------------------------------------------------------------------------------------
# extraction: live object graph -> node table
# ---------------------------------------------------------------------------------------------------
def _chars(cs):
    return "".join(sorted(cs))


# kinds whose parseImpl/postParse hand a plain str/list (not a ParseResults) to ParseResults(tokens, name, ...)
PLAIN_RESULT_KINDS = {"lit", "lit1", "empty", "errorStop", "noMatch", "caselessLit", "keyword", "word", "charsNotIn",
                      "stringStart", "stringEnd", "lineStart", "lineEnd", "wordStart", "wordEnd", "notAny", "group",
                      "suppress"}


def extract(b: Built, root, allow_fb=False):
    """returns (list of node S-expressions, root index). The caller must have streamlined `root`.
    allow_fb: accept infix_notation's `_FB` lookahead objects; they are emitted with kind `followedBy` and their
    indices are stored in `b.fb_ids` (the caller must then use the `ppx` driver command, not `pp`)."""
    nodes, _ris, _ids, _order = extract_multi(b, [root], allow_fb=allow_fb)
    return nodes, 0


def extract_multi(b: Built, roots, allow_fb=False):
    """several roots in one table (C12: pools, pre/post-streamline tables): returns
    (nodes, [index of each root], {id(obj): index}, [objects in index order])"""
    pp = b.pp
    b.fb_ids = []
    core = pp.core
    ids, order = {}, []

    def visit(e):
        k = id(e)
        if k in ids:
            return ids[k]
        ids[k] = len(order)
        order.append(e)
        return ids[k]

    root_ids = [visit(r) for r in roots]
    nodes = []
    i = 0
    T, F = True, False
    while i < len(order):
        e = order[i]
        i += 1
        t = type(e)
        if t is core._SingleCharLiteral:
            kind = [Sym("lit1"), e.match]
        elif t is pp.Literal:
            kind = [Sym("lit"), e.match]
        elif t is pp.Empty:
            kind = [Sym("empty")]
        elif t is pp.And._ErrorStop:
            kind = [Sym("errorStop")]
        elif t is pp.NoMatch:
            kind = [Sym("noMatch")]
        elif t is pp.CaselessLiteral:
            kind = [Sym("caselessLit"), e.match, e.returnString]
        elif t in (pp.Keyword, pp.CaselessKeyword):
            kind = [Sym("keyword"), e.match, _chars(e.identChars), bool(e.caseless)]
        elif t in (pp.Word, pp.Char):
            via_re = getattr(e.__dict__.get("parseImpl"), "__func__", None) is pp.Word.parseImpl_regex
            kind = [Sym("word"), _chars(e.initChars), _chars(e.bodyChars), e.minLen,
                    Sym("None") if e.maxLen >= core._MAX_INT else e.maxLen, bool(e.maxSpecified), bool(e.asKeyword), via_re]
        elif t is pp.CharsNotIn:
            kind = [Sym("charsNotIn"), _chars(e.notCharsSet), e.minLen, Sym("None") if e.maxLen >= core._MAX_INT else e.maxLen]
        elif t is pp.StringStart:
            kind = [Sym("stringStart")]
        elif t is pp.StringEnd:
            kind = [Sym("stringEnd")]
        elif t is pp.LineStart:
            kind = [Sym("lineStart"), _chars(e.skipper.whiteChars), "\n" in e.orig_whiteChars]
            if e.skipper.ignoreExprs or not e.skipper.skipWhitespace:
                raise Unsupported("LineStart skipper modified")
        elif t is pp.LineEnd:
            kind = [Sym("lineEnd")]
        elif t is pp.WordStart:
            kind = [Sym("wordStart"), _chars(e.wordChars)]
        elif t is pp.WordEnd:
            kind = [Sym("wordEnd"), _chars(e.wordChars)]
        elif t is pp.And:
            kind = [Sym("and")] + [visit(x) for x in e.exprs]
        elif t is pp.MatchFirst:
            kind = [Sym("matchFirst")] + [visit(x) for x in e.exprs]
        elif t is pp.Or:
            kind = [Sym("or")] + [visit(x) for x in e.exprs]
        elif t is pp.Opt:
            d = e.defaultValue
            if d is pp.Opt._Opt__optionalNotMatched:
                dv = Sym("None")
            elif isinstance(d, str):
                dv = d
            else:
                raise Unsupported("Opt default")
            kind = [Sym("opt"), visit(e.expr), dv]
        elif t in (pp.OneOrMore, pp.ZeroOrMore):
            ne = visit(e.not_ender) if e.not_ender is not None else Sym("None")
            kind = [Sym("many"), visit(e.expr), ne, t is pp.OneOrMore]
        elif t is pp.NotAny:
            kind = [Sym("notAny"), visit(e.expr)]
        elif t is pp.FollowedBy:
            kind = [Sym("followedBy"), visit(e.expr)]
        elif allow_fb and is_fb(pp, e):
            kind = [Sym("followedBy"), visit(e.expr)]
            b.fb_ids.append(i - 1)
        elif t is pp.Located:
            kind = [Sym("located"), visit(e.expr)]
        elif t is pp.Group:
            if e._asPythonList:
                raise Unsupported("Group(aslist)")
            kind = [Sym("group"), visit(e.expr)]
        elif t is pp.Suppress:
            kind = [Sym("suppress"), visit(e.expr)]
        elif t is pp.Combine:
            kind = [Sym("combine"), visit(e.expr), e.joinString]
        elif t is pp.SkipTo:
            fo = visit(e.failOn) if e.failOn is not None else Sym("None")
            ig = visit(e.ignorer) if e.ignorer.ignoreExprs else Sym("None")
            kind = [Sym("skipTo"), visit(e.expr), bool(e.includeMatch), fo, ig]
        elif t is pp.Forward:
            kind = [Sym("forward"), visit(e.expr) if e.expr is not None else Sym("None")]
        elif t in (pp.DelimitedList, pp.ParseElementEnhance, pp.TokenConverter):
            kind = [Sym("enhance"), visit(e.expr)]
        else:
            raise Unsupported(t.__name__)
        if e.debug or e.failAction:
            raise Unsupported("debug/failAction")
        acts = []
        # results-name binding of _parseNoCache (core.py:861-863), and again after each token-replacing action
        # (core.py:896-904): pseudo-action `name` of the model
        # `name`: the tokens handed to ParseResults(tokens, name, ..) are a ParseResults (the combinators pass their
        # sub-results on); `nameL`: they are a plain str/list - leaves, the postParse of Group/Suppress, NotAny's `[]`,
        # a named Located's `[ret_tokens]`, and whatever list a token-replacing action returns.
        if e.resultsName:
            plain = str(kind[0]) in PLAIN_RESULT_KINDS or str(kind[0]) == "located"
            name_act = [Sym("nameL" if plain else "name"), str(e.resultsName), bool(e.modalResults), bool(e.saveAsList)]
            name_act_l = [Sym("nameL")] + name_act[1:]
            acts.append(name_act)
        else:
            name_act = name_act_l = None
        for w in e.parseAction:
            tag = b.act_tags.get(id(w))
            if tag is None:
                raise Unsupported("foreign parse action")
            acts.append([Sym(tag[0])] + list(tag[1:]))
            if name_act and tag[0] in ("const", "drop", "rev", "dup"):
                acts.append(name_act_l)
        nodes.append([kind, bool(e.skipWhitespace), _chars(e.whiteChars), bool(e.callPreparse), bool(e.mayIndexError),
                      [visit(x) for x in e.ignoreExprs], acts, bool(e.callDuringTry), len(str(e)),
                      bool(e.resultsName)])
    return nodes, root_ids, ids, order


def prepare(b: Built, rootvar):
    """what parse_string/scan_string do before parsing (1205-1208): streamline root and its ignorables"""
    root = b.env[rootvar]
    if not root.streamlined:
        root.streamline()
    for e in root.ignoreExprs:
        e.streamline()
    return root


# ---------------------------------------------------------------------------------------------------
# running the real entry points, canonical outcomes (same text as PP.Driver.outSexp / scanSexp)
# ---------------------------------------------------------------------------------------------------
def canon_tok(v):
    if isinstance(v, str):
        return v
    if isinstance(v, bool):
        return [Sym("py"), repr(v)]
    if isinstance(v, int):
        return v if v >= 0 else [Sym("py"), repr(v)]
    if isinstance(v, (list, tuple)):
        return [canon_tok(x) for x in v]
    return [Sym("py"), repr(v)]


def canon_toks(res):
    return [canon_tok(x) for x in res.as_list()]


def exc_canon(pp, ex):
    t = type(ex)
    if t is pp.ParseException:
        return [Sym("fail"), Sym("parse"), ex.loc]
    if t is pp.ParseSyntaxException:
        return [Sym("fail"), Sym("syntax"), ex.loc]
    if t is pp.ParseFatalException:
        return [Sym("fail"), Sym("fatal"), ex.loc]
    if isinstance(ex, pp.ParseBaseException):
        return [Sym("fail"), Sym(t.__name__), ex.loc]
    if t is IndexError:
        return Sym("idx")
    return [Sym("internal"), Sym(t.__name__)]


def run_entry(pp, root, entry, s, opts=()):
    """returns the canonical S-expression text of the real outcome; never raises (except CaseTimeout)"""
    try:
        if entry in ("parse", "parseAll"):
            r = root.parse_string(s, parse_all=(entry == "parseAll"))
            return dumps([Sym("ok"), canon_toks(r)])
        if entry == "scan":
            mm, sk, ov = opts
            out = []
            try:
                for t, st, en in root.scan_string(s, max_matches=mm, overlap=ov, always_skip_whitespace=sk):
                    out.append([canon_toks(t), st, en])
            except pp.ParseBaseException as ex:
                return dumps([Sym("scan"), out, exc_canon(pp, ex)])
            except RecursionError:
                return dumps([Sym("scan"), out, [Sym("internal"), Sym("RecursionError")]])
            except Exception as ex:  # noqa
                return dumps([Sym("scan"), out, exc_canon(pp, ex)])
            return dumps([Sym("scan"), out, Sym("done")])
        if entry == "transform":
            return dumps(root.transform_string(s))
        if entry == "split":
            (mm,) = opts
            out = []
            try:
                for piece in root.split(s, maxsplit=mm):
                    out.append(piece)
            except Exception as ex:  # noqa
                return dumps([Sym("split"), out, exc_canon(pp, ex)])
            return dumps([Sym("split"), out, Sym("done")])
        raise ValueError(entry)
    except pp.ParseBaseException as ex:
        return dumps(exc_canon(pp, ex))
    except RecursionError:
        return dumps([Sym("internal"), Sym("RecursionError")])
    except Exception as ex:  # noqa
        return dumps(exc_canon(pp, ex))


def model_line(mode, entry, fuel, rootidx, dflt_white, s, keep_tabs, opts, nodes):
    return dumps([Sym("pp"), mode, Sym(entry), fuel, rootidx, dflt_white, s, bool(keep_tabs), list(opts), nodes])[1:-1]
