"""The whole exported zoo of ParserElement classes and helpers, for the C06 totality sweep (search leg only:
these classes are NOT in the Lean parse model)."""
from __future__ import annotations


def leaves(pp, rng):
    """callables producing a fresh leaf-ish expression"""
    c = pp.pyparsing_common
    L = [
        lambda: pp.Literal("ab"), lambda: pp.Literal("a"), lambda: pp.Word("ab"), lambda: pp.Word("ab", max=2),
        lambda: pp.Word("ab ", min=2), lambda: pp.Word("ab", "ab ", max=3), lambda: pp.Word(pp.alphas, pp.alphas + " ", max=6),
        lambda: pp.Word(pp.alphas, pp.alphanums), lambda: pp.Char("abé"),
        lambda: pp.Keyword("ab"), lambda: pp.CaselessKeyword("Ab"), lambda: pp.CaselessLiteral("aB"),
        lambda: pp.CharsNotIn("b,"), lambda: pp.CharsNotIn(" ", max=3), lambda: pp.Empty(), lambda: pp.NoMatch(),
        lambda: pp.White(), lambda: pp.White(" \t", min=1, max=2), lambda: pp.Regex(r"a+b?"), lambda: pp.Regex(r"(?P<x>a)(b)?"),
        lambda: pp.Regex(r"\d+", as_match=True), lambda: pp.Regex(r"(a)(b)", as_group_list=True), lambda: pp.Regex(r"\s*"),
        lambda: pp.QuotedString('"'), lambda: pp.QuotedString("'", esc_char="\\", multiline=True),
        lambda: pp.QuotedString("<<", end_quote_char=">>", unquote_results=False), lambda: pp.QuotedString('"', esc_quote='""'),
        lambda: pp.CloseMatch("abba", max_mismatches=1), lambda: pp.LineStart(),
        lambda: pp.LineEnd(), lambda: pp.StringStart(), lambda: pp.StringEnd(), lambda: pp.WordStart(), lambda: pp.WordEnd("ab"),
        lambda: pp.Tag("t"), lambda: pp.Tag("t", 3), lambda: c.integer, lambda: c.signed_integer, lambda: c.real,
        lambda: c.sci_real, lambda: c.number, lambda: c.fnumber, lambda: c.ieee_float, lambda: c.hex_integer,
        lambda: c.identifier, lambda: c.ipv4_address, lambda: c.ipv6_address, lambda: c.mac_address, lambda: c.uuid,
        lambda: c.iso8601_date, lambda: c.iso8601_datetime, lambda: c.fraction, lambda: c.mixed_integer,
        lambda: c.comma_separated_list, lambda: c.url, lambda: pp.quoted_string, lambda: pp.dbl_quoted_string,
        lambda: pp.sgl_quoted_string, lambda: pp.c_style_comment, lambda: pp.cpp_style_comment, lambda: pp.html_comment,
        lambda: pp.python_style_comment, lambda: pp.rest_of_line, lambda: pp.common_html_entity, lambda: pp.any_open_tag,
        lambda: pp.any_close_tag, lambda: pp.one_of("a ab abc b"), lambda: pp.one_of(["a", "A", "ab"], caseless=True),
        lambda: pp.one_of("a ab", as_keyword=True), lambda: pp.one_of("< <= ="), lambda: pp.unicode_string,
        lambda: pp.python_quoted_string if hasattr(pp, "python_quoted_string") else pp.quoted_string,
        lambda: pp.make_html_tags("a")[0], lambda: pp.make_xml_tags("b")[1],
    ]
    return L


def wrappers(pp, rng):
    """callables taking 1 or 2 expressions"""
    W1 = [
        lambda a: pp.Opt(a), lambda a: pp.Opt(a, "d"), lambda a: pp.ZeroOrMore(a), lambda a: pp.OneOrMore(a),
        lambda a: a[1, 2], lambda a: a * 2, lambda a: a[...], lambda a: ~a, lambda a: pp.FollowedBy(a), lambda a: pp.NotAny(a),
        lambda a: pp.Group(a), lambda a: pp.Group(a, aslist=True), lambda a: pp.Suppress(a), lambda a: pp.Combine(a),
        lambda a: pp.Combine(a, adjacent=False, join_string="-"), lambda a: pp.Dict(pp.OneOrMore(pp.Group(pp.Word("ab") + a))),
        lambda a: pp.Dict(pp.Group(pp.Word("ab") + a), asdict=True), lambda a: pp.Located(a), lambda a: pp.SkipTo(a),
        lambda a: pp.SkipTo(a, include=True), lambda a: pp.DelimitedList(a), lambda a: pp.DelimitedList(a, ";", combine=True),
        lambda a: pp.DelimitedList(a, min=2, max=3, allow_trailing_delim=True), lambda a: pp.AtLineStart(a),
        lambda a: pp.AtStringStart(a), lambda a: pp.PrecededBy(a), lambda a: pp.PrecededBy(a, retreat=2),
        lambda a: pp.IndentedBlock(a), lambda a: pp.IndentedBlock(a, recursive=True, grouped=False),
        lambda a: pp.original_text_for(a), lambda a: pp.original_text_for(a, as_string=False), lambda a: pp.ungroup(pp.Group(a)),
        lambda a: pp.counted_array(a), lambda a: pp.counted_array(a, int_expr=pp.Word("01").set_parse_action(lambda t: int(t[0], 2))),
        lambda a: pp.nested_expr("(", ")", a), lambda a: pp.nested_expr(content=a), lambda a: pp.nested_expr("[", "]", ignore_expr=None),
        lambda a: pp.match_previous_literal(a.copy()), lambda a: pp.match_previous_expr(a.copy()),
        lambda a: a.copy() + pp.match_previous_literal(a.copy()), lambda a: (lambda f: f + ":" + pp.match_previous_literal(f))(a.copy()),
        lambda a: (lambda f: f + ":" + pp.match_previous_expr(f))(a.copy()),
        lambda a: pp.infix_notation(a, [("-", 1, pp.OpAssoc.RIGHT), ("*", 2, pp.OpAssoc.LEFT), ("+", 2, pp.OpAssoc.LEFT)]),
        lambda a: pp.infix_notation(a, [(("?", ":"), 3, pp.OpAssoc.RIGHT), ("^", 2, pp.OpAssoc.RIGHT)], lpar="[", rpar="]"),
        lambda a: a("name"), lambda a: a("names*"), lambda a: a.copy().leave_whitespace(), lambda a: a.copy().set_whitespace_chars(" "),
        lambda a: a.copy().ignore(pp.python_style_comment), lambda a: a.copy().ignore(pp.c_style_comment),
        lambda a: a.copy().set_parse_action(lambda t: None), lambda a: a.copy().add_parse_action(lambda s, l, t: t[0] if len(t) else None),
        lambda a: a.copy().add_condition(lambda t: len(t) < 2), lambda a: a.copy().add_parse_action(pp.token_map(str)),
        lambda a: a.copy().add_parse_action(pp.replace_with("R")),
        lambda a: a.copy().add_parse_action(pp.match_only_at_col(2)),
        lambda a: a.copy().parse_with_tabs(), lambda a: pp.dict_of(pp.Word("ab"), a), lambda a: a.copy().set_name("N"),
        lambda a: a.copy().set_fail_action(lambda s, l, e, err: None), lambda a: pp.rest_of_line + a, lambda a: ... + a,
        lambda a: a + ... + pp.Literal(";"),
        # look-behind with a WINDOW whose expression can raise a fatal exception while it is tried on the window slices
        lambda a: a + pp.PrecededBy(a.copy() - pp.Literal("="), retreat=8),
        lambda a: pp.Word("ab01x=") + pp.PrecededBy(pp.Word("ab01") - pp.Literal("="), retreat=6) + pp.Opt(a),
        lambda a: a + pp.PrecededBy(a.copy().add_condition(lambda t: False, fatal=True), retreat=4),
    ]
    W2 = [
        lambda a, b: a + b, lambda a, b: a - b, lambda a, b: a | b, lambda a, b: a ^ b, lambda a, b: a & b,
        lambda a, b: pp.Each([a, pp.Opt(b)]), lambda a, b: pp.Each([pp.OneOrMore(a), pp.ZeroOrMore(b)]),
        lambda a, b: pp.OneOrMore(a, stop_on=b), lambda a, b: a[..., b], lambda a, b: pp.SkipTo(a, fail_on=b),
        lambda a, b: pp.SkipTo(a, ignore=b), lambda a, b: pp.DelimitedList(a, delim=b), lambda a, b: pp.nested_expr(a, b),
        lambda a, b: pp.dict_of(pp.Word("ab"), b), lambda a, b: a + (pp.Suppress(...) + b), lambda a, b: pp.Or([a, b, a + b]),
        lambda a, b: pp.MatchFirst([a + b, a, b]), lambda a, b: pp.And([a, pp.Opt(b), a]),
        lambda a, b: a + pp.PrecededBy(a.copy() - b, retreat=7),
    ]
    return W1, W2


INPUTS = ["", " ", "\t", "\n", "\r\n", "a", "ab", "ab ab", "ab a", "abab", "War and Peace", " ab\tab\n", "é", "ab é", "3", "3 a a a", "2 ab ab", "(a (b) c)",
          "[a [b] c", '"a\\"b"', "'x\ny'", "<<q>>", "a:a", "ab:ab", "1:1", "1:10", "1.5e3", "-7", "0x1F", "1.2.3.4", "::1",
          "aa:bb:cc:dd:ee:ff", "2020-01-02T03:04:05", "a,b,,c", "a;b;", "#c\nab", "/* c */ ab", "ab+ab*ab", "-ab", "[ab?ab:ab]",
          "<a href='x'>", "</a>", "&amp;", '"\\189"', '"a\\2019\\b"', "'\\x4g \\u12 \\777 \\t'", '"\\', '"\\x41\\101\\u0041"', "  a\n  b\n    c\n", "a\n\tb", "ab" * 30, " " * 40, "a\x00b", "ab\n\nab\n", "a b c d e"]
