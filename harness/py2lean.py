"""py2lean — a small translator from the *live source* of pure pyparsing functions to Lean 4 definitions.

Tie T0 of DESIGN §3 ("the model is regenerated from the source on every run"): the functions listed by a check are
read with `inspect.getsource` from the package imported from /repo's working tree, parsed with `ast`, and every
statement / expression of the supported subset ("PyLite") is mapped to a Lean term over `PPModel/Base/PyStr.lean`
(CPython `str`/`int` builtins: len, indexing, slicing, find/rfind/count with a one-character needle, + - comparison
chains, and/or/not, conditional expressions, local assignments, if/return).  The hand-written model is then *proved
equal* to the generated definitions (`Props/C14Src.lean`), so a change of the source changes the generated term and
breaks that proof (a broken obligation -> search), while the property theorems themselves stay about the model.

Anything outside the subset raises `Untranslatable` — the caller records a broken obligation (never a default).
"""
import ast
import inspect
import textwrap


class Untranslatable(Exception):
    pass


def lean_char(c):
    o = ord(c)
    if c == "\n":
        return "'\\n'"
    if c == "\t":
        return "'\\t'"
    if c == "\r":
        return "'\\r'"
    if c == "'":
        return "'\\''"
    if c == "\\":
        return "'\\\\'"
    if 32 <= o < 127:
        return f"'{c}'"
    return f"(Char.ofNat {o})"


def lean_str(s):
    return "[" + ", ".join(lean_char(c) for c in s) + "]"


TY = {"int": "Int", "str": "List Char", "bool": "Bool"}


class Fn:
    def __init__(self, fdef, where):
        self.f = fdef
        self.where = where
        self.env = {}

    # ---- expressions: returns (lean text, type) with type in int | str | bool | ostr (result of s[i]) ----
    def bad(self, node, why):
        raise Untranslatable(f"{self.where}:{getattr(node, 'lineno', '?')}: {why}: {ast.dump(node)[:120]}")

    def opt(self, node):
        if node is None or (isinstance(node, ast.Constant) and node.value is None):
            return "none"
        t, ty = self.expr(node)
        if ty != "int":
            self.bad(node, "bound is not an int")
        return f"(some {t})"

    def expr(self, n):
        if isinstance(n, ast.Constant):
            if isinstance(n.value, bool):
                return ("true" if n.value else "false"), "bool"
            if isinstance(n.value, int):
                return f"({n.value} : Int)", "int"
            if isinstance(n.value, str):
                return lean_str(n.value), "str"
            self.bad(n, "constant")
        if isinstance(n, ast.Name):
            if n.id not in self.env:
                self.bad(n, "unknown name")
            return n.id, self.env[n.id]
        if isinstance(n, ast.BinOp):
            a, ta = self.expr(n.left)
            b, tb = self.expr(n.right)
            if ta == tb == "int" and isinstance(n.op, (ast.Add, ast.Sub, ast.Mult)):
                op = {ast.Add: "+", ast.Sub: "-", ast.Mult: "*"}[type(n.op)]
                return f"({a} {op} {b})", "int"
            if ta == tb == "str" and isinstance(n.op, ast.Add):
                return f"({a} ++ {b})", "str"
            self.bad(n, "binop")
        if isinstance(n, ast.UnaryOp):
            a, ta = self.expr(n.operand)
            if isinstance(n.op, ast.Not) and ta == "bool":
                return f"(!{a})", "bool"
            if isinstance(n.op, ast.USub) and ta == "int":
                return f"(-{a})", "int"
            self.bad(n, "unaryop")
        if isinstance(n, ast.BoolOp):
            parts = [self.expr(v) for v in n.values]
            if any(t != "bool" for _, t in parts):
                self.bad(n, "and/or over non-bool")
            op = " && " if isinstance(n.op, ast.And) else " || "
            out = parts[0][0]
            for p, _ in parts[1:]:
                out = f"({out}{op}{p})"
            return out, "bool"
        if isinstance(n, ast.Compare):
            items = [n.left] + list(n.comparators)
            tr = [self.expr(x) for x in items]
            out = None
            for i, op in enumerate(n.ops):
                (a, ta), (b, tb) = tr[i], tr[i + 1]
                if isinstance(op, (ast.Lt, ast.LtE, ast.Gt, ast.GtE)) and ta == tb == "int":
                    sym = {ast.Lt: "<", ast.LtE: "≤", ast.Gt: ">", ast.GtE: "≥"}[type(op)]
                    c = f"decide ({a} {sym} {b})"
                elif isinstance(op, (ast.Eq, ast.NotEq)) and ta == tb and ta in ("int", "str", "bool"):
                    c = f"({a} == {b})" if isinstance(op, ast.Eq) else f"({a} != {b})"
                elif isinstance(op, (ast.Eq, ast.NotEq)) and {ta, tb} == {"ostr", "str"}:
                    o, s = (a, b) if ta == "ostr" else (b, a)
                    c = f"({o} == some {s})" if isinstance(op, ast.Eq) else f"({o} != some {s})"
                else:
                    self.bad(n, "comparison")
                out = c if out is None else f"({out} && {c})"
            return out, "bool"
        if isinstance(n, ast.IfExp):
            c, tc = self.expr(n.test)
            a, ta = self.expr(n.body)
            b, tb = self.expr(n.orelse)
            if tc != "bool" or ta != tb:
                self.bad(n, "conditional expression")
            return f"(if {c} then {a} else {b})", ta
        if isinstance(n, ast.Call):
            if isinstance(n.func, ast.Name) and n.func.id == "len" and len(n.args) == 1 and not n.keywords:
                a, ta = self.expr(n.args[0])
                if ta != "str":
                    self.bad(n, "len of non-str")
                return f"(Py.len {a})", "int"
            if isinstance(n.func, ast.Attribute) and n.func.attr in ("find", "rfind", "count") and not n.keywords:
                s, ts = self.expr(n.func.value)
                if ts != "str" or not (1 <= len(n.args) <= 3):
                    self.bad(n, "str method")
                nd = n.args[0]
                if not (isinstance(nd, ast.Constant) and isinstance(nd.value, str) and len(nd.value) == 1):
                    self.bad(n, "needle is not a one-character constant")
                lo = self.opt(n.args[1] if len(n.args) > 1 else None)
                hi = self.opt(n.args[2] if len(n.args) > 2 else None)
                fn = {"find": "findC", "rfind": "rfindC", "count": "countC"}[n.func.attr]
                return f"(Py.{fn} {s} {lean_char(nd.value)} {lo} {hi})", "int"
            self.bad(n, "call")
        if isinstance(n, ast.Subscript):
            s, ts = self.expr(n.value)
            if ts != "str":
                self.bad(n, "subscript of non-str")
            if isinstance(n.slice, ast.Slice):
                if n.slice.step is not None:
                    self.bad(n, "slice step")
                return f"(Py.slice {s} {self.opt(n.slice.lower)} {self.opt(n.slice.upper)})", "str"
            i, ti = self.expr(n.slice)
            if ti != "int":
                self.bad(n, "index")
            return f"(Py.item {s} {i})", "ostr"
        self.bad(n, "expression")

    # ---- statements ----
    def block(self, stmts, ret_ty, ind):
        pad = "  " * ind
        if not stmts:
            raise Untranslatable(f"{self.where}: control reaches the end of the function without return")
        st, rest = stmts[0], stmts[1:]
        if isinstance(st, ast.Expr) and isinstance(st.value, ast.Constant) and isinstance(st.value.value, str):
            return self.block(rest, ret_ty, ind)  # docstring
        if isinstance(st, ast.Assign) and len(st.targets) == 1 and isinstance(st.targets[0], ast.Name):
            e, t = self.expr(st.value)
            self.env[st.targets[0].id] = t
            return f"{pad}let {st.targets[0].id} := {e}\n" + self.block(rest, ret_ty, ind)
        if isinstance(st, ast.Return) and st.value is not None:
            e, t = self.expr(st.value)
            if t != ret_ty:
                self.bad(st, f"returns {t}, declared {ret_ty}")
            return f"{pad}{e}\n"
        if isinstance(st, ast.If):
            c, tc = self.expr(st.test)
            if tc != "bool":
                self.bad(st, "if over non-bool")
            saved = dict(self.env)
            a = self.block(st.body + ([] if self._returns(st.body) else rest), ret_ty, ind + 1)
            self.env = dict(saved)
            b = self.block((st.orelse or []) + ([] if st.orelse and self._returns(st.orelse) else rest), ret_ty, ind + 1)
            self.env = saved
            return f"{pad}if {c} then\n{a}{pad}else\n{b}"
        self.bad(st, "statement")

    @staticmethod
    def _returns(stmts):
        return bool(stmts) and isinstance(stmts[-1], ast.Return)

    def lean(self):
        f = self.f
        if f.args.vararg or f.args.kwarg or f.args.kwonlyargs or f.args.defaults:
            self.bad(f, "signature")
        params = []
        for a in f.args.args:
            if not (isinstance(a.annotation, ast.Name) and a.annotation.id in TY):
                self.bad(f, f"parameter {a.arg} has no int/str annotation")
            self.env[a.arg] = a.annotation.id
            params.append(f"({a.arg} : {TY[a.annotation.id]})")
        if not (isinstance(f.returns, ast.Name) and f.returns.id in TY):
            self.bad(f, "no int/str return annotation")
        body = self.block(f.body, f.returns.id, 1)
        return f"def {f.name} {' '.join(params)} : {TY[f.returns.id]} :=\n{body}"


class ImplFn(Fn):
    """`parseImpl(self, instring, loc, do_actions=True)` of a leaf element -> a Lean function into `Py.Ret`.

    Differences to `Fn`: `self.<attr>` are extra parameters (types given by the caller: str | int | chars, chars = a set /
    collection of one-character strings); an index expression `s[i]` is NOT totalised: an expression containing one has
    Lean type `Option _` (`none` = IndexError raised while evaluating it, CPython's left-to-right, short-circuit order)
    and an `if` over such a test propagates `Py.Ret.indexError`; `raise ParseException(instring, <loc>, ...)` and
    `return <loc>, <tokens>` are the only exits.  Locals may be re-assigned (`loc += 1`, `start = loc`,
    `name: T = e`, `m = min(a, b)` on ints: shadowing `let`s); the only loop is the character scan
    `while v < B and s[v] (not) in CS: v += 1` -> `Py.scanWhile` (see `scan_loop`; any other `while` is refused)."""

    def __init__(self, fdef, where, attrs, name, calls=None):
        super().__init__(fdef, where)
        self.attrs = attrs
        self.name = name
        self.calls = calls or {}   # python global name -> (lean name, [arg types], result type)
        self.used = []
        self.fresh = 0

    def var(self):
        self.fresh += 1
        return f"x{self.fresh}"

    def bind(self, parts, combine):
        """parts: [(text, raising)], combine: [texts] -> text.  Left-to-right evaluation."""
        names, binds = [], []
        for t, r in parts:
            if r:
                v = self.var()
                binds.append((v, t))
                names.append(v)
            else:
                names.append(t)
        body = combine(names)
        if not binds:
            return body, False
        out = f"(some {body})"
        for v, t in reversed(binds):
            out = f"(Option.bind {t} (fun {v} => {out}))"
        return out, True

    def opt(self, node):
        if node is None or (isinstance(node, ast.Constant) and node.value is None):
            return "none"
        t, ty, r = self.rexpr(node)
        if ty != "int" or r:
            self.bad(node, "bound is not a plain int")
        return f"(some {t})"

    def expr(self, n):  # the non-raising interface used by inherited code paths
        t, ty, r = self.rexpr(n)
        if r:
            self.bad(n, "index expression in a position where IndexError is not modelled")
        return t, ty

    def rexpr(self, n):
        if isinstance(n, ast.Attribute) and isinstance(n.value, ast.Name) and n.value.id == "self":
            if n.attr not in self.attrs:
                self.bad(n, "self attribute without a declared type")
            if n.attr not in self.used:
                self.used.append(n.attr)
            return f"self_{n.attr}", self.attrs[n.attr], False
        if isinstance(n, ast.Subscript) and not isinstance(n.slice, ast.Slice):
            s, ts, rs = self.rexpr(n.value)
            i, ti, ri = self.rexpr(n.slice)
            if ts != "str" or ti != "int":
                self.bad(n, "index")
            t, _ = self.bind([(s, rs), (i, ri)], lambda xs: f"(Py.item {xs[0]} {xs[1]})")
            if rs or ri:
                self.bad(n, "nested raising index")
            return t, "str", True
        if isinstance(n, ast.BoolOp):
            parts = [self.rexpr(v) for v in n.values]
            if any(ty != "bool" for _, ty, _ in parts):
                self.bad(n, "and/or over non-bool")
            is_and = isinstance(n.op, ast.And)
            # fold from the right, short-circuit: later operands are only evaluated when needed
            t, r = parts[-1][0], parts[-1][2]
            for a, _, ra in reversed(parts[:-1]):
                if not r:
                    t, r = self.bind([(a, ra)], lambda xs: f"({xs[0]} {'&&' if is_and else '||'} {t})")
                else:
                    stop = "(some false)" if is_and else "(some true)"
                    if ra:
                        v = self.var()
                        body = f"(if {v} then {t} else {stop})" if is_and else f"(if {v} then {stop} else {t})"
                        t, r = f"(Option.bind {a} (fun {v} => {body}))", True
                    else:
                        t = f"(if {a} then {t} else {stop})" if is_and else f"(if {a} then {stop} else {t})"
            return t, "bool", r
        if isinstance(n, ast.Compare) and len(n.ops) == 1 and isinstance(n.ops[0], (ast.In, ast.NotIn)):
            a, ta, ra = self.rexpr(n.left)
            b, tb, rb = self.rexpr(n.comparators[0])
            if ta != "str" or tb != "chars":
                self.bad(n, "membership")
            neg = "!" if isinstance(n.ops[0], ast.NotIn) else ""
            t, r = self.bind([(a, ra), (b, rb)], lambda xs: f"({neg}Py.inChars {xs[0]} {xs[1]})")
            return t, "bool", r
        if isinstance(n, ast.Compare):
            items = [n.left] + list(n.comparators)
            tr = [self.rexpr(x) for x in items]
            if not any(r for _, _, r in tr):
                t, ty = Fn.expr(self, n)
                return t, ty, False
            if len(n.ops) != 1 or not isinstance(n.ops[0], (ast.Eq, ast.NotEq)) or tr[0][1] != tr[1][1]:
                self.bad(n, "comparison with index expression")
            sym = "==" if isinstance(n.ops[0], ast.Eq) else "!="
            t, r = self.bind([(tr[0][0], tr[0][2]), (tr[1][0], tr[1][2])], lambda xs: f"({xs[0]} {sym} {xs[1]})")
            return t, "bool", r
        if isinstance(n, ast.Call) and isinstance(n.func, ast.Name) and n.func.id in self.calls and not n.keywords:
            lean_name, arg_tys, res_ty = self.calls[n.func.id]
            args = [self.rexpr(a) for a in n.args]
            if [ty for _, ty, _ in args] != arg_tys or any(r for _, _, r in args):
                self.bad(n, "call of a translated function with unexpected arguments")
            return "(" + " ".join([lean_name] + [a for a, _, _ in args]) + ")", res_ty, False
        if isinstance(n, ast.Call) and isinstance(n.func, ast.Attribute) and n.func.attr == "startswith" and not n.keywords:
            s, ts, rs = self.rexpr(n.func.value)
            if ts != "str" or rs or not (1 <= len(n.args) <= 2):
                self.bad(n, "startswith")
            pfx, tp, rp = self.rexpr(n.args[0])
            if tp != "str" or rp:
                self.bad(n, "startswith prefix")
            lo = self.opt(n.args[1] if len(n.args) > 1 else None)
            return f"(Py.startswith {s} {pfx} {lo})", "bool", False
        if isinstance(n, ast.Call) and isinstance(n.func, ast.Name) and n.func.id == "min":
            if len(n.args) != 2 or n.keywords:
                self.bad(n, "min with other than two positional arguments")
            (a, ta, ra), (b, tb, rb) = self.rexpr(n.args[0]), self.rexpr(n.args[1])
            if ta != "int" or tb != "int" or ra or rb:
                self.bad(n, "min of non-int")
            return f"(min {a} {b})", "int", False
        if isinstance(n, (ast.BinOp, ast.UnaryOp, ast.IfExp)):
            subs = [x for x in ast.iter_child_nodes(n) if isinstance(x, ast.expr)]
            if any(self.rexpr(x)[2] for x in subs):
                self.bad(n, "index expression inside arithmetic")
        t, ty = Fn.expr(self, n)
        return t, ty, False

    def toks(self, n):
        if isinstance(n, ast.List) and not n.elts:
            return "[]"
        t, ty, r = self.rexpr(n)
        if ty != "str" or r:
            self.bad(n, "token value")
        return f"[{t}]"

    def block(self, stmts, ret_ty, ind):
        pad = "  " * ind
        if not stmts:
            raise Untranslatable(f"{self.where}: control reaches the end of parseImpl without return / raise")
        st, rest = stmts[0], stmts[1:]
        if isinstance(st, ast.Expr) and isinstance(st.value, ast.Constant) and isinstance(st.value.value, str):
            return self.block(rest, ret_ty, ind)
        if isinstance(st, ast.Assign) and len(st.targets) == 1 and isinstance(st.targets[0], ast.Name):
            e, t, r = self.rexpr(st.value)
            if r:
                self.bad(st, "assignment of an index expression")
            self.env[st.targets[0].id] = t
            return f"{pad}let {st.targets[0].id} := {e}\n" + self.block(rest, ret_ty, ind)
        if isinstance(st, ast.AnnAssign) and isinstance(st.target, ast.Name) and st.value is not None and st.simple:
            # `name: <annotation> = value` — the annotation has no run-time effect on a local
            e, t, r = self.rexpr(st.value)
            if r:
                self.bad(st, "assignment of an index expression")
            self.env[st.target.id] = t
            return f"{pad}let {st.target.id} := {e}\n" + self.block(rest, ret_ty, ind)
        if isinstance(st, ast.AugAssign) and isinstance(st.target, ast.Name) and isinstance(st.op, (ast.Add, ast.Sub)):
            # `x += e` on a local int: a shadowing `let`
            x = st.target.id
            e, t, r = self.rexpr(st.value)
            if self.env.get(x) != "int" or t != "int" or r:
                self.bad(st, "augmented assignment other than int += / -= int")
            return f"{pad}let {x} := ({x} {'+' if isinstance(st.op, ast.Add) else '-'} {e})\n" + self.block(rest, ret_ty, ind)
        if isinstance(st, ast.While):
            return self.scan_loop(st, rest, ret_ty, ind)
        if isinstance(st, ast.Return) and isinstance(st.value, ast.Tuple) and len(st.value.elts) == 2:
            e, t, r = self.rexpr(st.value.elts[0])
            if t != "int" or r:
                self.bad(st, "returned location")
            return f"{pad}Py.Ret.ok {e} {self.toks(st.value.elts[1])}\n"
        if isinstance(st, ast.Raise) and isinstance(st.exc, ast.Call) and isinstance(st.exc.func, ast.Name) \
                and st.exc.func.id == "ParseException" and len(st.exc.args) >= 2 \
                and isinstance(st.exc.args[0], ast.Name) and st.exc.args[0].id == "instring":
            e, t, r = self.rexpr(st.exc.args[1])
            if t != "int" or r:
                self.bad(st, "exception location")
            return f"{pad}Py.Ret.parseExc {e}\n"
        if isinstance(st, ast.If):
            c, tc, r = self.rexpr(st.test)
            if tc != "bool":
                self.bad(st, "if over non-bool")
            saved = dict(self.env)
            ends = lambda b: bool(b) and isinstance(b[-1], (ast.Return, ast.Raise))
            a = self.block(st.body + ([] if ends(st.body) else rest), ret_ty, ind + 2)
            self.env = dict(saved)
            b = self.block((st.orelse or []) + ([] if st.orelse and ends(st.orelse) else rest), ret_ty, ind + 2)
            self.env = saved
            if r:
                v = self.var()
                return (f"{pad}match {c} with\n{pad}| none => Py.Ret.indexError\n"
                        f"{pad}| some {v} =>\n{pad}  if {v} then\n{a}{pad}  else\n{b}")
            return f"{pad}if {c} then\n{a}{pad}else\n{b}"
        self.bad(st, "statement")

    def scan_loop(self, st, rest, ret_ty, ind):
        """exactly `while <v> < <int expr> and instring[<v>] (not) in <chars expr>: <v> += 1` (no else) ->
        `Py.scanWhile instring <chars> <neg> <v> <bound>`; the loop variable is rebound to the result, `none`
        (IndexError raised by `instring[<v>]`) is propagated.  Any other loop is Untranslatable."""
        pad = "  " * ind
        c = st.test
        if st.orelse or not (isinstance(c, ast.BoolOp) and isinstance(c.op, ast.And) and len(c.values) == 2):
            self.bad(st, "while loop outside the supported shape")
        lt, mem = c.values
        if not (isinstance(lt, ast.Compare) and len(lt.ops) == 1 and isinstance(lt.ops[0], ast.Lt)
                and isinstance(lt.left, ast.Name)):
            self.bad(st, "while: first conjunct is not `<var> < <bound>`")
        v = lt.left.id
        if self.env.get(v) != "int":
            self.bad(st, "while: loop variable is not a local int")
        if not (isinstance(mem, ast.Compare) and len(mem.ops) == 1 and isinstance(mem.ops[0], (ast.In, ast.NotIn))
                and isinstance(mem.left, ast.Subscript) and not isinstance(mem.left.slice, ast.Slice)
                and isinstance(mem.left.value, ast.Name) and self.env.get(mem.left.value.id) == "str"
                and isinstance(mem.left.slice, ast.Name) and mem.left.slice.id == v):
            self.bad(st, "while: second conjunct is not `<str>[<var>] (not) in <chars>`")
        if not (len(st.body) == 1 and isinstance(st.body[0], ast.AugAssign) and isinstance(st.body[0].op, ast.Add)
                and isinstance(st.body[0].target, ast.Name) and st.body[0].target.id == v
                and isinstance(st.body[0].value, ast.Constant) and type(st.body[0].value.value) is int
                and st.body[0].value.value == 1):
            self.bad(st, "while: body is not `<var> += 1`")
        b, tb, rb = self.rexpr(lt.comparators[0])
        cs, tc, rc = self.rexpr(mem.comparators[0])
        if tb != "int" or rb or tc != "chars" or rc:
            self.bad(st, "while: bound / character set")
        if any(isinstance(x, ast.Name) and x.id == v for x in ast.walk(lt.comparators[0])) or \
                any(isinstance(x, ast.Name) and x.id == v for x in ast.walk(mem.comparators[0])):
            self.bad(st, "while: bound / character set depends on the loop variable")
        neg = "true" if isinstance(mem.ops[0], ast.NotIn) else "false"
        return (f"{pad}match Py.scanWhile {mem.left.value.id} {cs} {neg} {v} {b} with\n{pad}| none => Py.Ret.indexError\n"
                f"{pad}| some {v} =>\n" + self.block(rest, ret_ty, ind + 1))

    def lean(self):
        f = self.f
        names = [a.arg for a in f.args.args]
        if names != ["self", "instring", "loc", "do_actions"] or f.args.vararg or f.args.kwarg or f.args.kwonlyargs:
            self.bad(f, "parseImpl signature")
        self.env = {"instring": "str", "loc": "int"}
        body = self.block(f.body, "ret", 1)
        lty = {"str": "List Char", "int": "Int", "chars": "List Char", "bool": "Bool"}
        params = "".join(f"(self_{a} : {lty[self.attrs[a]]}) " for a in sorted(self.used))
        return f"def {self.name} {params}(instring : List Char) (loc : Int) : Py.Ret :=\n{body}"


def translate_impls(classes, attrs, namespace, origin, calls=None, imports=()):
    """classes: live element classes; translates each class's own `parseImpl`.
    calls: python global name -> (live object it must be bound to, lean name, [arg types], result type)"""
    out = [
        "import PPModel.Base.PyStr",
        *[f"import {m}" for m in imports],
        f"/-! GENERATED by harness/py2lean.py from the live source of {origin} — do not edit.",
        "    One Lean definition per `parseImpl` method; `self.<attr>` are parameters (sorted by name);",
        "    `none` = IndexError raised by an index expression, propagated as `Py.Ret.indexError`. -/",
        f"namespace {namespace}",
        "open PP",
        "",
    ]
    for cls in classes:
        fn = cls.__dict__.get("parseImpl")
        if fn is None:
            raise Untranslatable(f"{cls.__name__} has no parseImpl of its own")
        src = textwrap.dedent(inspect.getsource(fn))
        fdef = ast.parse(src).body[0]
        known = {}
        for gname, (obj, lean_name, arg_tys, res_ty) in (calls or {}).items():
            if fn.__globals__.get(gname) is obj:      # the name really is bound to the translated function
                known[gname] = (lean_name, arg_tys, res_ty)
        out.append(ImplFn(fdef, f"{origin}:{cls.__name__}.parseImpl", attrs, f"{cls.__name__.lstrip('_')}_parseImpl", known).lean())
    out.append(f"end {namespace}")
    return "\n".join(out) + "\n"


LEAF_ATTRS = {"match": "str", "matchLen": "int", "firstMatchChar": "str", "wordChars": "chars", "errmsg": "str"}


def leaf_classes(pp):
    from pyparsing import core
    return [pp.Empty, pp.NoMatch, pp.Literal, core._SingleCharLiteral, pp.StringEnd, pp.LineEnd, pp.WordStart, pp.WordEnd,
            pp.LineStart]


def leaf_calls():
    """module-level functions a leaf parseImpl may call: they are translated themselves (Gen/UtilSrc.lean)"""
    from pyparsing import util
    return {"col": (util.col, "PP.Gen.UtilSrc.col", ["int", "str"], "int")}


LEAF_IMPORTS = ("PPProofs.Props.Gen.UtilSrc",)


LOOP_ATTRS = {"notCharsSet": "chars", "initChars": "chars", "bodyChars": "chars", "minLen": "int", "maxLen": "int",
              "maxSpecified": "bool", "asKeyword": "bool", "errmsg": "str"}


def loop_classes(pp):
    """leaf classes whose own `parseImpl` contains the character-scanning `while` loop"""
    return [pp.CharsNotIn, pp.Word]


def translate(objs, namespace, origin):
    """objs: list of live function objects (lru_cache wrappers are unwrapped).  Returns the text of a Lean file."""
    out = [
        "import PPModel.Base.PyStr",
        f"/-! GENERATED by harness/py2lean.py from the live source of {origin} — do not edit.",
        "    One Lean definition per Python function, statement by statement (PyLite subset). -/",
        f"namespace {namespace}",
        "open PP",
        "",
    ]
    for o in objs:
        fn = inspect.unwrap(o)
        src = textwrap.dedent(inspect.getsource(fn))
        tree = ast.parse(src)
        fdef = tree.body[0]
        if not isinstance(fdef, ast.FunctionDef):
            raise Untranslatable(f"{fn.__name__}: not a plain function")
        out.append(Fn(fdef, f"{origin}:{fn.__name__}").lean())
    out.append(f"end {namespace}")
    return "\n".join(out) + "\n"


if __name__ == "__main__":
    import sys

    sys.path.insert(0, str(__import__("pathlib").Path(__file__).resolve().parent.parent))
    from harness import common

    pp = common.import_pyparsing()
    from pyparsing import util

    if "--loops" in sys.argv:
        print(translate_impls(loop_classes(pp), LOOP_ATTRS, "PP.Gen.LoopSrc", "pyparsing/core.py"))
    elif "--leaves" in sys.argv:
        print(translate_impls(leaf_classes(pp), LEAF_ATTRS, "PP.Gen.LeafSrc", "pyparsing/core.py", leaf_calls(), LEAF_IMPORTS))
    else:
        print(translate([util.col, util.lineno, util.line], "PP.Gen.UtilSrc", "pyparsing/util.py"))
