"""py2lean — a small translator from the *live source* of pure pyparsing functions to Lean 4 definitions.

Tie T0 of DESIGN §3 ("the model is regenerated from the source on every run"): the functions listed by a check are
read with `inspect.getsource` from the package imported from /repo's working tree, parsed with `ast`, and every
statement / expression of the supported subset ("PyLite") is mapped to a Lean term over `PPModel/Base/PyStr.lean`
(CPython `str`/`int` builtins: len, indexing, slicing, find/rfind/count with a one-character needle, + - comparison
chains, and/or/not, conditional expressions, local assignments, if/return).  The hand-written model is then *proved
equal* to the generated definitions (`Props/C14Src.lean`), so a change of the source changes the generated term and
breaks that proof (a broken obligation -> search), while the property theorems themselves stay about the model.

Anything outside the subset raises `Untranslatable` — the caller records a broken obligation (never a default).
"""
import ast
import inspect
import textwrap


class Untranslatable(Exception):
    pass


def lean_char(c):
    o = ord(c)
    if c == "\n":
        return "'\\n'"
    if c == "\t":
        return "'\\t'"
    if c == "\r":
        return "'\\r'"
    if c == "'":
        return "'\\''"
    if c == "\\":
        return "'\\\\'"
    if 32 <= o < 127:
        return f"'{c}'"
    return f"(Char.ofNat {o})"


def lean_str(s):
    return "[" + ", ".join(lean_char(c) for c in s) + "]"


TY = {"int": "Int", "str": "List Char", "bool": "Bool"}


class Fn:
    def __init__(self, fdef, where):
        self.f = fdef
        self.where = where
        self.env = {}

    # ---- expressions: returns (lean text, type) with type in int | str | bool | ostr (result of s[i]) ----
    def bad(self, node, why):
        raise Untranslatable(f"{self.where}:{getattr(node, 'lineno', '?')}: {why}: {ast.dump(node)[:120]}")

    def opt(self, node):
        if node is None or (isinstance(node, ast.Constant) and node.value is None):
            return "none"
        t, ty = self.expr(node)
        if ty != "int":
            self.bad(node, "bound is not an int")
        return f"(some {t})"

    def expr(self, n):
        if isinstance(n, ast.Constant):
            if isinstance(n.value, bool):
                return ("true" if n.value else "false"), "bool"
            if isinstance(n.value, int):
                return f"({n.value} : Int)", "int"
            if isinstance(n.value, str):
                return lean_str(n.value), "str"
            self.bad(n, "constant")
        if isinstance(n, ast.Name):
            if n.id not in self.env:
                self.bad(n, "unknown name")
            return n.id, self.env[n.id]
        if isinstance(n, ast.BinOp):
            a, ta = self.expr(n.left)
            b, tb = self.expr(n.right)
            if ta == tb == "int" and isinstance(n.op, (ast.Add, ast.Sub, ast.Mult)):
                op = {ast.Add: "+", ast.Sub: "-", ast.Mult: "*"}[type(n.op)]
                return f"({a} {op} {b})", "int"
            if ta == tb == "str" and isinstance(n.op, ast.Add):
                return f"({a} ++ {b})", "str"
            self.bad(n, "binop")
        if isinstance(n, ast.UnaryOp):
            a, ta = self.expr(n.operand)
            if isinstance(n.op, ast.Not) and ta == "bool":
                return f"(!{a})", "bool"
            if isinstance(n.op, ast.USub) and ta == "int":
                return f"(-{a})", "int"
            self.bad(n, "unaryop")
        if isinstance(n, ast.BoolOp):
            parts = [self.expr(v) for v in n.values]
            if any(t != "bool" for _, t in parts):
                self.bad(n, "and/or over non-bool")
            op = " && " if isinstance(n.op, ast.And) else " || "
            out = parts[0][0]
            for p, _ in parts[1:]:
                out = f"({out}{op}{p})"
            return out, "bool"
        if isinstance(n, ast.Compare):
            items = [n.left] + list(n.comparators)
            tr = [self.expr(x) for x in items]
            out = None
            for i, op in enumerate(n.ops):
                (a, ta), (b, tb) = tr[i], tr[i + 1]
                if isinstance(op, (ast.Lt, ast.LtE, ast.Gt, ast.GtE)) and ta == tb == "int":
                    sym = {ast.Lt: "<", ast.LtE: "≤", ast.Gt: ">", ast.GtE: "≥"}[type(op)]
                    c = f"decide ({a} {sym} {b})"
                elif isinstance(op, (ast.Eq, ast.NotEq)) and ta == tb and ta in ("int", "str", "bool"):
                    c = f"({a} == {b})" if isinstance(op, ast.Eq) else f"({a} != {b})"
                elif isinstance(op, (ast.Eq, ast.NotEq)) and {ta, tb} == {"ostr", "str"}:
                    o, s = (a, b) if ta == "ostr" else (b, a)
                    c = f"({o} == some {s})" if isinstance(op, ast.Eq) else f"({o} != some {s})"
                else:
                    self.bad(n, "comparison")
                out = c if out is None else f"({out} && {c})"
            return out, "bool"
        if isinstance(n, ast.IfExp):
            c, tc = self.expr(n.test)
            a, ta = self.expr(n.body)
            b, tb = self.expr(n.orelse)
            if tc != "bool" or ta != tb:
                self.bad(n, "conditional expression")
            return f"(if {c} then {a} else {b})", ta
        if isinstance(n, ast.Call):
            if isinstance(n.func, ast.Name) and n.func.id == "len" and len(n.args) == 1 and not n.keywords:
                a, ta = self.expr(n.args[0])
                if ta != "str":
                    self.bad(n, "len of non-str")
                return f"(Py.len {a})", "int"
            if isinstance(n.func, ast.Attribute) and n.func.attr in ("find", "rfind", "count") and not n.keywords:
                s, ts = self.expr(n.func.value)
                if ts != "str" or not (1 <= len(n.args) <= 3):
                    self.bad(n, "str method")
                nd = n.args[0]
                if not (isinstance(nd, ast.Constant) and isinstance(nd.value, str) and len(nd.value) == 1):
                    self.bad(n, "needle is not a one-character constant")
                lo = self.opt(n.args[1] if len(n.args) > 1 else None)
                hi = self.opt(n.args[2] if len(n.args) > 2 else None)
                fn = {"find": "findC", "rfind": "rfindC", "count": "countC"}[n.func.attr]
                return f"(Py.{fn} {s} {lean_char(nd.value)} {lo} {hi})", "int"
            self.bad(n, "call")
        if isinstance(n, ast.Subscript):
            s, ts = self.expr(n.value)
            if ts != "str":
                self.bad(n, "subscript of non-str")
            if isinstance(n.slice, ast.Slice):
                if n.slice.step is not None:
                    self.bad(n, "slice step")
                return f"(Py.slice {s} {self.opt(n.slice.lower)} {self.opt(n.slice.upper)})", "str"
            i, ti = self.expr(n.slice)
            if ti != "int":
                self.bad(n, "index")
            return f"(Py.item {s} {i})", "ostr"
        self.bad(n, "expression")

    # ---- statements ----
    def block(self, stmts, ret_ty, ind):
        pad = "  " * ind
        if not stmts:
            raise Untranslatable(f"{self.where}: control reaches the end of the function without return")
        st, rest = stmts[0], stmts[1:]
        if isinstance(st, ast.Expr) and isinstance(st.value, ast.Constant) and isinstance(st.value.value, str):
            return self.block(rest, ret_ty, ind)  # docstring
        if isinstance(st, ast.Assign) and len(st.targets) == 1 and isinstance(st.targets[0], ast.Name):
            e, t = self.expr(st.value)
            self.env[st.targets[0].id] = t
            return f"{pad}let {st.targets[0].id} := {e}\n" + self.block(rest, ret_ty, ind)
        if isinstance(st, ast.Return) and st.value is not None:
            e, t = self.expr(st.value)
            if t != ret_ty:
                self.bad(st, f"returns {t}, declared {ret_ty}")
            return f"{pad}{e}\n"
        if isinstance(st, ast.If):
            c, tc = self.expr(st.test)
            if tc != "bool":
                self.bad(st, "if over non-bool")
            saved = dict(self.env)
            a = self.block(st.body + ([] if self._returns(st.body) else rest), ret_ty, ind + 1)
            self.env = dict(saved)
            b = self.block((st.orelse or []) + ([] if st.orelse and self._returns(st.orelse) else rest), ret_ty, ind + 1)
            self.env = saved
            return f"{pad}if {c} then\n{a}{pad}else\n{b}"
        self.bad(st, "statement")

    @staticmethod
    def _returns(stmts):
        return bool(stmts) and isinstance(stmts[-1], ast.Return)

    def lean(self):
        f = self.f
        if f.args.vararg or f.args.kwarg or f.args.kwonlyargs or f.args.defaults:
            self.bad(f, "signature")
        params = []
        for a in f.args.args:
            if not (isinstance(a.annotation, ast.Name) and a.annotation.id in TY):
                self.bad(f, f"parameter {a.arg} has no int/str annotation")
            self.env[a.arg] = a.annotation.id
            params.append(f"({a.arg} : {TY[a.annotation.id]})")
        if not (isinstance(f.returns, ast.Name) and f.returns.id in TY):
            self.bad(f, "no int/str return annotation")
        body = self.block(f.body, f.returns.id, 1)
        return f"def {f.name} {' '.join(params)} : {TY[f.returns.id]} :=\n{body}"


def translate(objs, namespace, origin):
    """objs: list of live function objects (lru_cache wrappers are unwrapped).  Returns the text of a Lean file."""
    out = [
        "import PPModel.Base.PyStr",
        f"/-! GENERATED by harness/py2lean.py from the live source of {origin} — do not edit.",
        "    One Lean definition per Python function, statement by statement (PyLite subset). -/",
        f"namespace {namespace}",
        "open PP",
        "",
    ]
    for o in objs:
        fn = inspect.unwrap(o)
        src = textwrap.dedent(inspect.getsource(fn))
        tree = ast.parse(src)
        fdef = tree.body[0]
        if not isinstance(fdef, ast.FunctionDef):
            raise Untranslatable(f"{fn.__name__}: not a plain function")
        out.append(Fn(fdef, f"{origin}:{fn.__name__}").lean())
    out.append(f"end {namespace}")
    return "\n".join(out) + "\n"


if __name__ == "__main__":
    import sys

    sys.path.insert(0, str(__import__("pathlib").Path(__file__).resolve().parent.parent))
    from harness import common

    pp = common.import_pyparsing()
    from pyparsing import util

    print(translate([util.col, util.lineno, util.line], "PP.Gen.UtilSrc", "pyparsing/util.py"))
