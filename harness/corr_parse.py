"""Correspondence runner for the shared parse model: builds a grammar program with the real API, extracts the
object graph, runs the real entry points and prepares the model lines; used by C01, C02, C03, C06, C07, C08, C09, C12."""
from __future__ import annotations

from . import common, gram
from .sexp import Sym

import json
import multiprocessing as _mp

FUEL = 1500
CASE_TIMEOUT = 1.5
# shared across forked workers: once the real code has hung this often in one run, the remaining cases are skipped
# (the hangs themselves are reported: the model says `hang` only where the code really loops)
_TIMEOUTS = _mp.Value("i", 0)
MAX_TIMEOUTS = 24


def set_mode(pp, mode):
    """mode: ("none",) | ("packrat", size|None) | ("lr", size|None)"""
    pp.ParserElement.disable_memoization()
    if mode[0] == "packrat":
        pp.ParserElement.enable_packrat(mode[1], force=True)
    elif mode[0] == "lr":
        pp.ParserElement.enable_left_recursion(mode[1], force=True)


def mode_sexp(mode):
    if mode[0] == "none":
        return [Sym("none")]
    return [Sym(mode[0]), Sym("None") if mode[1] is None else mode[1]]


def _children(pp, e):
    out = list(e.recurse()) + list(e.ignoreExprs)
    for extra in ("not_ender", "failOn", "ignorer"):
        x = getattr(e, extra, None)
        if x is not None and isinstance(x, pp.ParserElement):
            out.append(x)
    return out


def nullable_rep(pp, root):
    """does the grammar contain a repetition (or ignorable) whose body may match the empty string?
    Own fixed-point analysis over the object graph (pyparsing's mayReturnEmpty is computed at construction and is
    stale for Forwards assigned later)."""
    nodes, todo = {}, [root]
    while todo:
        e = todo.pop()
        if id(e) in nodes:
            continue
        nodes[id(e)] = e
        todo.extend(_children(pp, e))
    nul = {k: False for k in nodes}

    def ev(e):
        kids = e.recurse()
        if isinstance(e, (pp.Opt, pp.ZeroOrMore, pp.NotAny, pp.FollowedBy, pp.SkipTo, pp.Empty, pp.core.PositionToken)):
            return True
        if isinstance(e, pp.NoMatch):
            return False
        if isinstance(e, pp.And):
            return all(nul[id(k)] for k in kids)
        if isinstance(e, (pp.MatchFirst, pp.Or)):
            return any(nul[id(k)] for k in kids)
        if isinstance(e, pp.ParseElementEnhance):
            return nul[id(e.expr)] if e.expr is not None else False
        if isinstance(e, pp.CaselessLiteral) or isinstance(e, pp.Literal):
            return e.match == ""
        return bool(e.mayReturnEmpty)

    changed = True
    while changed:
        changed = False
        for k, e in nodes.items():
            v = ev(e)
            if v and not nul[k]:
                nul[k] = True
                changed = True
    for e in nodes.values():
        if isinstance(e, (pp.core._MultipleMatch, pp.IndentedBlock)) and e.expr is not None and nul[id(e.expr)]:
            return True
        for ig in e.ignoreExprs:
            if nul[id(ig)]:
                return True
        if isinstance(e, pp.SkipTo) and e.ignorer.ignoreExprs and any(nul[id(x)] for x in e.ignorer.ignoreExprs):
            return True
    return False


def eval_case(job):
    """worker: job = dict(prog, root, inputs, entries=[(entry, opts)], modes=[mode], keep_tabs=False, allow_nullable=False,
    default_ws=None) returns dict(skip=reason) or dict(records=[(input, entry, opts, mode, impl_text, model_line)]).
    default_ws: run the whole case after `set_default_whitespace_chars(default_ws)` (preceded by one parse_all call under
    the standard defaults), inside reset_pyparsing_context so that the worker is left pristine."""
    pp = common.import_pyparsing()
    if job.get("default_ws") is not None:
        pp.Empty().parse_string("", parse_all=True)
        with pp.testing.reset_pyparsing_context():
            pp.ParserElement.set_default_whitespace_chars(job["default_ws"])
            return _eval_case(pp, job)
    return _eval_case(pp, job)


def _eval_case(pp, job):
    try:
        b = gram.build(pp, job["prog"])
    except Exception as ex:  # constructor refused the arguments: not a grammar
        return {"skip": f"build:{type(ex).__name__}"}
    try:
        root = gram.prepare(b, job["root"])
        if not job.get("allow_nullable") and nullable_rep(pp, root):
            return {"skip": "nullable-repetition"}
        nodes, ri = gram.extract(b, root)
    except gram.Unsupported as ex:
        return {"skip": f"unsupported:{ex}"}
    except RecursionError:
        return {"skip": "recursion-in-streamline"}
    dw = pp.ParserElement.DEFAULT_WHITE_CHARS
    if job.get("keep_tabs"):
        root.parse_with_tabs()
    recs = []
    for mode in job.get("modes", [("none",)]):
        for s in job["inputs"]:
            for entry, opts in job["entries"]:
                if _TIMEOUTS.value >= MAX_TIMEOUTS:
                    return {"records": recs, "n_nodes": len(nodes), "kinds": sorted({str(n[0][0]) for n in nodes}), "cut": True}
                set_mode(pp, mode)
                keep = bool(root.keepTabs)  # transform_string sets it for good (core.py:1350)
                try:
                    impl = common.with_alarm(CASE_TIMEOUT, gram.run_entry, pp, root, entry, s, opts)
                except common.CaseTimeout:       # (with_alarm has already retried with a 10x limit)
                    impl = "hang"
                    with _TIMEOUTS.get_lock():
                        _TIMEOUTS.value += 1
                finally:
                    pp.ParserElement.disable_memoization()
                line = gram.model_line(mode_sexp(mode), entry, FUEL, ri, dw, s, keep, opts, nodes)
                recs.append((s, entry, list(opts), list(mode), impl, line))
    out = {"records": recs, "n_nodes": len(nodes), "kinds": sorted({str(n[0][0]) for n in nodes})}
    if job.get("want_plain"):
        # does the extracted node table fall under the closed PEG-reading theorem (Props/C01Sem.lean)?  Asked of the model.
        out["plain_line"] = gram.model_line(mode_sexp(("none",)), "plain", 0, ri, dw, "", False, [], nodes)
    if job.get("want_term"):
        # C06: do the executable hypotheses of entry_points_terminate_depth (Props/C06Term.lean) hold of this node table?
        out["term_line"] = gram.model_line(mode_sexp(("none",)), "termcheck", 0, ri, dw, "", False, [], nodes)
    return out


def run_jobs(ctx, stream, jobs, project=None, nontrivial=None):
    """run jobs on the real code (process pool) and on the model (driver); diff; returns list of diff dicts.
    project(model_text, impl_text, rec) -> (m, i) lets a property compare only the observables it speaks about."""
    _TIMEOUTS.value = 0
    res = common.pmap(eval_case, jobs)
    cases, lines, impl = [], [], []
    skips = {}
    kinds = {}
    for job, r in zip(jobs, res):
        if "skip" in r:
            skips[r["skip"].split(":")[0]] = skips.get(r["skip"].split(":")[0], 0) + 1
            continue
        for k in r["kinds"]:
            kinds[k] = kinds.get(k, 0) + 1
        for (s, entry, opts, mode, im, line) in r["records"]:
            cases.append({"prog": job["prog"], "root": job["root"], "input": s, "entry": entry, "opts": opts, "mode": mode})
            lines.append(line)
            impl.append(im)
    model = ctx.driver.run_sharded(lines) if lines else []
    plain_q = [(r["plain_line"], len(r["records"])) for r in res if "skip" not in r and r.get("plain_line")]
    n_plain_g = n_plain_c = 0
    if plain_q:
        for ans, (_, nrec) in zip(ctx.driver.run_sharded([l for l, _ in plain_q]), plain_q):
            if ans.strip() == "T":
                n_plain_g += 1
                n_plain_c += nrec
    # C06 termination tests (depthOk at the root, advOk) evaluated by the driver on every extracted table that asked
    term_q = [(j, r["term_line"], r["records"]) for j, r in zip(jobs, res) if "skip" not in r and r.get("term_line")]
    term = {"grammars_asked": len(term_q), "acyclic": 0, "acyclic_and_advancing": 0, "recursive_ok_and_advancing": 0,
            "compared_cases_under_theorem": 0, "compared_cases_under_recursive_theorem_only": 0,
            "real_timeouts_under_theorem": 0, "model_hangs_under_theorem": 0}
    term_bad = []
    if term_q:
        answers = ctx.driver.run_sharded([l for _, l, _ in term_q])
        mi = 0
        idx_of = {}
        for k, c in enumerate(cases):
            idx_of.setdefault(json.dumps([c["prog"], c["root"]], sort_keys=True, default=str), []).append(k)
        for ans, (job, _, recs) in zip(answers, term_q):
            a = ans.strip().strip("()").split()
            if len(a) != 4:
                continue
            acyc, adv, rec, n_nodes = a[0] == "T", a[1] == "T", a[2] == "T", int(a[3])
            if acyc:
                term["acyclic"] += 1
            if acyc and adv:
                term["acyclic_and_advancing"] += 1
            elif rec and adv:
                term["recursive_ok_and_advancing"] += 1
            else:
                continue
            for k in idx_of.get(json.dumps([job["prog"], job["root"]], sort_keys=True, default=str), []):
                if not (acyc and adv):
                    # entry_points_terminate_rec_partial asks fuel > (len + 1) * (D + 1) + D with D = |g|
                    slen = len(cases[k]["input"].expandtabs())
                    if not ((slen + 1) * (n_nodes + 1) + n_nodes < FUEL):
                        continue
                    term["compared_cases_under_recursive_theorem_only"] += 1
                term["compared_cases_under_theorem"] += 1
                if impl[k] == "hang":
                    term["real_timeouts_under_theorem"] += 1
                    term_bad.append({"case": cases[k], "impl": impl[k], "model": model[k], "what": "real-timeout"})
                elif "hang" in model[k].replace("(", " ").replace(")", " ").split():
                    term["model_hangs_under_theorem"] += 1
                    term_bad.append({"case": cases[k], "impl": impl[k], "model": model[k], "what": "model-hang"})
    # the whole real call timed out: the model must say `hang` somewhere (partial scan results are not observable)
    model = ["hang" if (i == "hang" and m.endswith("hang)")) else m for m, i in zip(model, impl)]
    # CPython's recursion limit (deep right-recursive grammars on long inputs) is a property of the runtime, not of
    # pyparsing's algorithm: such calls are not compared (counted in the evidence)
    n_rec = sum(1 for i in impl if "internal RecursionError" in i)
    model = [common.Driver.MODEL_TIMEOUT if "internal RecursionError" in i else m for m, i in zip(model, impl)]
    if project is not None:
        pm, pi = [], []
        for c, m, i in zip(cases, model, impl):
            a, b2 = project(m, i, c)
            pm.append(a)
            pi.append(b2)
        model_c, impl_c = pm, pi
    else:
        model_c, impl_c = model, impl
    def outcome_of(c, io):
        head = io.split(" ", 2)
        if c["entry"] in ("parse", "parseAll"):
            return c["entry"] + ":" + (head[0].lstrip("(") + ("-" + head[1] if head[0] == "(fail" else ""))
        return c["entry"] + (":exc" if c["entry"] in ("scan", "split") and not io.endswith("done)") else "")

    diffs = ctx.correspond(stream, cases, lines, impl_c, model_outputs=model_c, nontrivial=nontrivial,
                           outcome_of=outcome_of)
    st = ctx.cov["streams"][stream] if cases else ctx.cov["streams"].setdefault(stream, {"cases": 0, "diffs": 0, "outcomes": {}})
    st["skipped_grammars"] = {**st.get("skipped_grammars", {}), **skips}
    if plain_q:
        st["plain_fragment"] = {"grammars_asked": len(plain_q), "grammars_plain": n_plain_g, "compared_cases_on_plain_grammars": n_plain_c,
                                "meaning": "node tables for which the driver evaluates plainTable = true, i.e. the hypothesis "
                                           "Plain g of plain_parse_sound / plain_parse_iff_sem holds for the compared grammar"}
    if term_q:
        term["meaning"] = ("node tables for which the driver evaluates depthOk g |g| root = T (acyclic) and advOk g |g| = T, i.e. the "
                           "hypotheses of PP.Parse.entry_points_terminate_depth hold (fuel %d >= |g|), or - recursive tables - "
                           "recTableOk g |g| |g| = T and advOk g |g| = T with (len+1)*(|g|+1)+|g| < fuel, the hypotheses of "
                           "PP.Parse.entry_points_terminate_rec_partial: the model provably never "
                           "answers hang there, so a timeout of the real entry point on such a grammar is a failing input" % FUEL)
        st["termination_fragment"] = term
        ctx.notes.setdefault("termination_fragment", {})[stream] = {k: v for k, v in term.items() if k != "meaning"}
        ctx.term_bad = getattr(ctx, "term_bad", []) + term_bad
    if n_rec:
        st["python_recursion_limit"] = st.get("python_recursion_limit", 0) + n_rec
    kk = st.setdefault("node_kinds_hit", {})
    for k, v in kinds.items():
        kk[k] = kk.get(k, 0) + v
    return [{"case": cases[i], "model": model[i], "impl": impl[i]} for i in diffs], cases, model, impl
