"""S-expression codec shared with lean/PPModel/Base/Sexp.lean.

Python value        <-> S-expression
  Sym("x")           <-> atom x
  int                <-> atom (decimal)
  True / False       <-> atom T / F
  str                <-> "string" (escapes: \\\\ \\" \\n \\t \\r \\xHH \\uHHHH)
  list / tuple       <-> ( ... )
"""
from __future__ import annotations


class Sym(str):
    __slots__ = ()

    def __repr__(self):
        return f"Sym({str.__repr__(self)})"


def quote(s: str) -> str:
    out = ['"']
    for ch in s:
        o = ord(ch)
        if ch == "\\":
            out.append("\\\\")
        elif ch == '"':
            out.append('\\"')
        elif ch == "\n":
            out.append("\\n")
        elif ch == "\t":
            out.append("\\t")
        elif ch == "\r":
            out.append("\\r")
        elif o < 32 or o == 127:
            out.append("\\x%02x" % o)
        elif 126 < o < 65536:
            out.append("\\u%04x" % o)
        else:
            out.append(ch)
    out.append('"')
    return "".join(out)


def dumps(v) -> str:
    if isinstance(v, Sym):
        return str(v)
    if isinstance(v, bool):
        return "T" if v else "F"
    if isinstance(v, int):
        return str(v)
    if isinstance(v, str):
        return quote(v)
    if isinstance(v, (list, tuple)):
        return "(" + " ".join(dumps(x) for x in v) + ")"
    if v is None:
        return "None"
    raise TypeError(f"cannot encode {type(v)}")


def line(*items) -> str:
    """one protocol line: top-level items separated by blanks"""
    return " ".join(dumps(x) for x in items)


def loads_all(s: str):
    """parse a line into the list of its top-level S-expressions"""
    pos = 0
    n = len(s)
    stack = [[]]
    while pos < n:
        ch = s[pos]
        if ch in " \n\t\r":
            pos += 1
        elif ch == "(":
            stack.append([])
            pos += 1
        elif ch == ")":
            if len(stack) < 2:
                raise ValueError("unbalanced )")
            x = stack.pop()
            stack[-1].append(x)
            pos += 1
        elif ch == '"':
            pos += 1
            buf = []
            while True:
                if pos >= n:
                    raise ValueError("unterminated string")
                c = s[pos]
                if c == '"':
                    pos += 1
                    break
                if c == "\\":
                    e = s[pos + 1]
                    if e == "n":
                        buf.append("\n"); pos += 2
                    elif e == "t":
                        buf.append("\t"); pos += 2
                    elif e == "r":
                        buf.append("\r"); pos += 2
                    elif e == "\\":
                        buf.append("\\"); pos += 2
                    elif e == '"':
                        buf.append('"'); pos += 2
                    elif e == "x":
                        buf.append(chr(int(s[pos + 2:pos + 4], 16))); pos += 4
                    elif e == "u":
                        buf.append(chr(int(s[pos + 2:pos + 6], 16))); pos += 6
                    else:
                        raise ValueError("bad escape")
                else:
                    buf.append(c)
                    pos += 1
            stack[-1].append("".join(buf))
        else:
            st = pos
            while pos < n and s[pos] not in ' \n\t\r()"':
                pos += 1
            a = s[st:pos]
            if a == "T":
                stack[-1].append(True)
            elif a == "F":
                stack[-1].append(False)
            else:
                try:
                    stack[-1].append(int(a))
                except ValueError:
                    stack[-1].append(Sym(a))
    if len(stack) != 1:
        raise ValueError("unbalanced (")
    return stack[0]


def loads(s: str):
    xs = loads_all(s)
    if len(xs) != 1:
        raise ValueError(f"expected one expression, got {len(xs)}: {s!r}")
    return xs[0]
