#!/venv/bin/python
"""tools/seed_eval.py <Cxx> <dir-with-patch.diff,demo.py,meta.json> <name> [--tier quick]
Confirms a seeded change (applies to /repo HEAD, demo passes without / fails with it, baseline suite still passes),
runs ./check Cxx against it, and files everything under /verif/seeded/<Cxx>-<name>/ (meta.json gets the results)."""
import json, os, shutil, subprocess, sys
prop, src, name = sys.argv[1], os.path.abspath(sys.argv[2]), sys.argv[3]
tier = "quick"
if "--tier" in sys.argv:
    tier = sys.argv[sys.argv.index("--tier") + 1]
wt = f"/tmp/rw-seed-{os.getpid()}"
res = {}
def run(cmd, **kw):
    return subprocess.run(cmd, capture_output=True, text=True, **kw)
run(["git", "-C", "/repo", "worktree", "add", "--detach", "-q", wt, "HEAD"])
try:
    env = dict(os.environ, PYTHONPATH=wt)
    env.pop("PYPARSING_VERIF", None)
    d0 = run(["/venv/bin/python", os.path.join(src, "demo.py")], env=env, cwd=wt, timeout=600)
    res["demo_clean_exit"] = d0.returncode
    a = run(["git", "-C", wt, "apply", os.path.abspath(os.path.join(src, "patch.diff"))])
    if a.returncode != 0:
        a = run(["git", "-C", wt, "apply", "--3way", os.path.abspath(os.path.join(src, "patch.diff"))])
    res["applies"] = a.returncode == 0
    if res["applies"]:
        d1 = run(["/venv/bin/python", os.path.join(src, "demo.py")], env=env, cwd=wt, timeout=600)
        res["demo_patched_exit"] = d1.returncode
        res["demo_patched_tail"] = (d1.stdout + d1.stderr)[-300:]
        s = run(["/verif/tools/suite.py", wt], env=dict(os.environ, SUITE_N="8"))
        res["suite_ok"] = s.returncode == 0
        res["suite_tail"] = s.stdout.strip().splitlines()[-1] if s.stdout.strip() else s.stderr[-200:]
        c = run(["/verif/check", prop, "--tier", tier], env=dict(os.environ, VERIF_REPO=wt), cwd="/verif", timeout=3000)
        res["check_exit"] = c.returncode
        res["check_lines"] = [l for l in c.stdout.splitlines() if l.startswith(("VIOLATION", "["))][:5]
        rp = [l.split("replay=")[1].split()[0] for l in c.stdout.splitlines() if l.startswith("VIOLATION")]
        if rp:
            try:
                r = json.load(open(os.path.join("/verif", rp[0])))
                res["first_replay"] = {k: r.get(k) for k in ("replay_kind", "kind", "case", "expected", "actual") if k in r}
                res["first_replay"] = json.loads(json.dumps(res["first_replay"], default=str)[:1500]) if len(json.dumps(res["first_replay"], default=str)) < 1500 else {"replay_kind": r.get("replay_kind"), "kind": r.get("kind")}
            except Exception as ex:
                res["first_replay"] = str(ex)
        res["no_failing_input"] = any("no-failing-input-found" in l for l in c.stdout.splitlines())
    confirmed = res.get("applies") and res.get("demo_clean_exit") == 0 and res.get("demo_patched_exit") not in (0, None) and res.get("suite_ok")
    res["confirmed"] = bool(confirmed)
    res["caught"] = res.get("check_exit") == 1
    print(json.dumps({k: v for k, v in res.items() if k not in ("first_replay", "demo_patched_tail")}, indent=1))
    if confirmed:
        dst = f"/verif/seeded/{prop}-{name}"
        os.makedirs(dst, exist_ok=True)
        for f in ("patch.diff", "demo.py"):
            if os.path.abspath(os.path.join(src, f)) != os.path.abspath(os.path.join(dst, f)):
                shutil.copy(os.path.join(src, f), dst)
        meta = json.load(open(os.path.join(src, "meta.json")))
        meta["property"] = prop
        meta["verified_by_lead"] = {"repo_head": run(["git", "-C", "/repo", "rev-parse", "--short", "HEAD"]).stdout.strip(),
                                    "demo_exit_clean": res["demo_clean_exit"], "demo_exit_patched": res["demo_patched_exit"],
                                    "suite": res["suite_tail"], "ran": f"./check {prop} --tier {tier} with VERIF_REPO=<scratch worktree + patch>",
                                    "check_exit": res.get("check_exit"), "check_output": res.get("check_lines"),
                                    "caught": res["caught"], "only_broken_obligation": res.get("no_failing_input"),
                                    "first_replay": res.get("first_replay")}
        json.dump(meta, open(os.path.join(dst, "meta.json"), "w"), indent=1)
finally:
    run(["git", "-C", "/repo", "worktree", "remove", "--force", wt])
