#!/bin/bash
# tools/seed_sweep.sh [pattern] — re-evaluates every filed seeded change against its own property's check (3 at a time)
cd /verif
ls -d seeded/${1:-C*} | xargs -P 3 -I{} sh -c 'd={}; b=$(basename $d); p=${b%%-*}; n=${b#*-}; /venv/bin/python tools/seed_eval.py $p $d $n > /tmp/sweep_$b.log 2>&1; echo "$b $(grep -o "\"confirmed\": [a-z]*" /tmp/sweep_$b.log) $(grep -o "\"caught\": [a-z]*" /tmp/sweep_$b.log) $(grep -o "\"applies\": [a-z]*" /tmp/sweep_$b.log) $(grep -c no-failing-input-found /tmp/sweep_$b.log)"'
