#!/venv/bin/python
"""Regenerates MANIFEST.json from the table below and validates it against the schema."""
import json
import sys
from pathlib import Path

V = Path(__file__).resolve().parent.parent

# property -> dict(text=..., note=..., technique=..., design=...) for claimed; or dict(na="reason")
TABLE = {
    "C14": dict(
        text="Lean theorems (PPProofs/Props/C14.lean) prove for ALL strings and all loc<=len that col, lineno and line "
             "describe one and the same line (unique line start, 1-based offset, newline count, line text), and that "
             "expandtabs output is tab-free and idempotent; the Lean model is a statement-by-statement transcription of "
             "util.col/lineno/line and is tied to the code by an exhaustive small-alphabet + random differential run on "
             "every check. Parser-reported locations (actions, scan_string, Located, original_text_for, exceptions) are "
             "partial: decided by slice-identity oracles on the real code and by the parse-model correspondence.",
        note="Trusted: Lean kernel; axioms propext/Classical.choice/Quot.sound; the LineCol transcription (checked "
             "differentially); CPython str.rfind/find/count/expandtabs. Parser location clauses are oracle-checked only.",
        technique="Lean 4 proof over a transcribed model + differential correspondence with util.py",
        design="§5 C14",
    ),
}
NOT_YET = "check not built yet in this round (planned: Lean model + proof + correspondence, see DESIGN.md §5)"


def main():
    props = [json.loads(l)["id"] for l in (V / "properties.jsonl").read_text().splitlines() if l.strip()]
    checks, na = [], []
    for pid in props:
        e = TABLE.get(pid)
        if e is None:
            na.append({"property_id": pid, "reason": NOT_YET})
            continue
        if "na" in e:
            na.append({"property_id": pid, "reason": e["na"]})
            continue
        checks.append({
            "property_id": pid,
            "quick_cmd": f"./check {pid} --tier quick",
            "thorough_cmd": f"./check {pid} --tier thorough",
            "evidence_file": f"evidence/{pid}.json",
            "replay_cmd_template": f"./check {pid} --replay {{path}}",
            "engine": "lean4-proof+correspondence",
            "level_claimed": {"category": "proof", "text": e["text"], "design_ref": e.get("design", "")},
            "level_note": e["note"],
            "technique": e["technique"],
        })
    man = {
        "version": 1,
        "setup_cmd": "cd lean && lake build PPModel PPProofs ppdriver",
        "hooks": {
            "guard": "PYPARSING_VERIF",
            "enable": "none needed: the harness imports the working tree of /repo in-process; PYPARSING_VERIF=1 is "
                      "set by the harness but no source hook is present",
            "baseline_off_cmd": "cd /repo && /venv/bin/python -m pytest -ra -q -p no:cacheprovider --timeout=900 "
                                "--continue-on-collection-errors",
            "source_commits": [],
            "add_only": True,
        },
        "engines": [{
            "name": "lean4-proof+correspondence",
            "path": "check",
            "serves_properties": [c["property_id"] for c in checks],
            "kind_free_text": "Lean 4 models (lean/PPModel) with kernel-checked property theorems (lean/PPProofs/Props), "
                              "tied to /repo by a compiled-driver differential correspondence and generated facts; "
                              "real-code oracle search for replays",
        }],
        "checks": checks,
        "not_applicable": na,
        "notes": "See DESIGN.md. Exit 2 = harness trouble/timeout, never a violation.",
    }
    (V / "MANIFEST.json").write_text(json.dumps(man, indent=1) + "\n")
    try:
        import jsonschema
        jsonschema.validate(man, json.loads(Path("/root/.vp/MANIFEST.schema.json").read_text()))
        print("MANIFEST.json valid;", len(checks), "checks,", len(na), "not_applicable")
    except ImportError:
        print("jsonschema not available; written without validation")


if __name__ == "__main__":
    main()
