#!/venv/bin/python
"""Regenerates MANIFEST.json from the table below and validates it against the schema."""
import json
import sys
from pathlib import Path

V = Path(__file__).resolve().parent.parent

# each harness/props/cXX.py defines META = dict(text=..., note=..., technique=..., design=...) for a claimed
# property, or META = dict(na="reason") for one that is not claimed.
import importlib
sys.path.insert(0, str(V))


def load_table():
    t = {}
    for f in sorted((V / "harness" / "props").glob("c[0-9][0-9].py")):
        m = importlib.import_module(f"harness.props.{f.stem}")
        if hasattr(m, "META"):
            t[f.stem.upper()] = m.META
    return t


NOT_YET = "check not built yet in this round (planned: Lean model + proof + correspondence, see DESIGN.md §5)"


def main():
    TABLE = load_table()
    props = [json.loads(l)["id"] for l in (V / "properties.jsonl").read_text().splitlines() if l.strip()]
    checks, na = [], []
    for pid in props:
        e = TABLE.get(pid)
        if e is None:
            na.append({"property_id": pid, "reason": NOT_YET})
            continue
        if "na" in e:
            na.append({"property_id": pid, "reason": e["na"]})
            continue
        checks.append({
            "property_id": pid,
            "quick_cmd": f"./check {pid} --tier quick",
            "thorough_cmd": f"./check {pid} --tier thorough",
            "evidence_file": f"evidence/{pid}.json",
            "replay_cmd_template": f"./check {pid} --replay {{path}}",
            "engine": "lean4-proof+correspondence",
            "level_claimed": {"category": "proof", "text": e["text"], "design_ref": e.get("design", "")},
            "level_note": e["note"],
            "technique": e["technique"],
        })
    man = {
        "version": 1,
        "setup_cmd": "cd lean && lake build PPModel PPProofs ppdriver",
        "hooks": {
            "guard": "PYPARSING_VERIF",
            "enable": "none needed: the harness imports the working tree of /repo in-process; PYPARSING_VERIF=1 is "
                      "set by the harness but no source hook is present",
            "baseline_off_cmd": "cd /repo && /venv/bin/python -m pytest -ra -q -p no:cacheprovider --timeout=900 "
                                "--continue-on-collection-errors",
            "source_commits": [],
            "add_only": True,
        },
        "engines": [{
            "name": "lean4-proof+correspondence",
            "path": "check",
            "serves_properties": [c["property_id"] for c in checks],
            "kind_free_text": "Lean 4 models (lean/PPModel) with kernel-checked property theorems (lean/PPProofs/Props), "
                              "tied to /repo by a compiled-driver differential correspondence and generated facts; "
                              "real-code oracle search for replays",
        }],
        "checks": checks,
        "not_applicable": na,
        "notes": "See DESIGN.md. Exit 2 = harness trouble/timeout, never a violation.",
    }
    (V / "MANIFEST.json").write_text(json.dumps(man, indent=1) + "\n")
    import subprocess
    r = subprocess.run(["python3-vt", "-c", "import json,jsonschema,sys; jsonschema.validate(json.load(open(sys.argv[1])), "
                        "json.load(open('/root/.vp/MANIFEST.schema.json')))", str(V / "MANIFEST.json")],
                       capture_output=True, text=True)
    print("MANIFEST.json", "valid;" if r.returncode == 0 else "INVALID: " + r.stderr[-400:], len(checks), "checks,",
          len(na), "not_applicable")
    sys.exit(r.returncode)

if __name__ == "__main__":
    main()
