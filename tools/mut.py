#!/venv/bin/python
"""tools/mut.py <Cxx> <patch-file | 'sed:<expr>:<file>'> [--suite] : apply a change to a scratch worktree of /repo
(at /repo's HEAD), run ./check Cxx --tier quick against it, print exit code and VIOLATION lines, clean up."""
import os, subprocess, sys, shutil
prop, change = sys.argv[1], sys.argv[2]
wt = f"/tmp/rw-mut-{os.getpid()}"
subprocess.run(["git", "-C", "/repo", "worktree", "add", "--detach", "-q", wt, "HEAD"], check=True)
try:
    if change.startswith("sed@@"):
        _, expr, f = change.split("@@", 2)
        subprocess.run(["sed", "-i", expr, os.path.join(wt, f)], check=True)
    elif change.startswith("sed:"):
        _, expr, f = change.split(":", 2)
        subprocess.run(["sed", "-i", expr, os.path.join(wt, f)], check=True)
    elif change == "revert:HEAD" or change.startswith("revert:"):
        subprocess.run(["git", "-C", wt, "revert", "--no-edit", change.split(":", 1)[1]], check=True, capture_output=True)
        subprocess.run(["git", "-C", wt, "reset", "-q", "--soft", "HEAD~1"], check=True)
    else:
        subprocess.run(["git", "-C", wt, "apply", os.path.abspath(change)], check=True)
    d = subprocess.run(["git", "-C", wt, "diff", "HEAD", "--stat"], capture_output=True, text=True).stdout.strip().splitlines()
    print("change:", d[-1] if d else "NO CHANGE")
    if "--suite" in sys.argv:
        r = subprocess.run(["/verif/tools/suite.py", wt], capture_output=True, text=True, env=dict(os.environ, SUITE_N="8"))
        print("suite:", r.stdout.strip().splitlines()[-1] if r.stdout.strip() else r.stderr[-200:])
    env = dict(os.environ, VERIF_REPO=wt)
    tier = os.environ.get("TIER", "quick")
    r = subprocess.run(["/verif/check", prop, "--tier", tier], capture_output=True, text=True, env=env, cwd="/verif")
    lines = [l for l in r.stdout.splitlines() if l.startswith(("VIOLATION", "KNOWN", "[")) ]
    print(f"exit={r.returncode}")
    for l in lines[:6]:
        print("  ", l)
    if r.returncode == 2:
        print(r.stderr[-600:])
finally:
    subprocess.run(["git", "-C", "/repo", "worktree", "remove", "--force", wt])
