#!/venv/bin/python
"""tools/gen_design.py — assembles /verif/DESIGN.md from design/*.md (hand-written) and repository facts:
   §5 from META / THEOREMS of harness/props/cXX.py, §6 tables from known_findings.json, §8 table from seeded/*/meta.json."""
import glob
import importlib
import json
import os
import re
import sys
import textwrap

ROOT = os.path.dirname(os.path.dirname(os.path.abspath(__file__)))
sys.path.insert(0, ROOT)


def part(name):
    return open(os.path.join(ROOT, "design", name)).read()


def wrap(s, width=118, indent=""):
    out = []
    for para in s.split("\n\n"):
        out.append(textwrap.fill(" ".join(para.split()), width=width, initial_indent=indent, subsequent_indent=indent))
    return "\n\n".join(out)


def props():
    out = {}
    for line in open(os.path.join(ROOT, "properties.jsonl")):
        d = json.loads(line)
        out[d["id"]] = d
    return out


def sec5():
    P = props()
    mf = json.load(open(os.path.join(ROOT, "MANIFEST.json")))
    na = {(x.get("property_id") or x.get("id")) if isinstance(x, dict) else x: x for x in mf.get("not_applicable", [])}
    notes = {}
    np_ = os.path.join(ROOT, "design", "notes")
    for f in glob.glob(os.path.join(np_, "C*.md")):
        notes[os.path.basename(f)[:3]] = open(f).read().strip()
    s = ["## 5. Per-property: what is proved, what ties it to the code, what the oracle searches\n",
         "Generated from the `META` / `THEOREMS` of each `harness/props/cXX.py` (the same text feeds `MANIFEST.json`). "
         "\"Proved\" always means: a Lean theorem about the model, for all inputs the statement quantifies over, kernel-checked, "
         "axioms ⊆ {propext, Classical.choice, Quot.sound}. PARTIAL marks what is covered by correspondence/oracle only.\n"]
    for pid in sorted(P):
        s.append(f"### {pid} — {P[pid]['title']}\n")
        modname = f"harness.props.{pid.lower()}"
        try:
            m = importlib.import_module(modname)
        except Exception as ex:  # noqa
            m = None
        if m is None or not hasattr(m, "META"):
            r = na.get(pid)
            reason = (r.get("reason") if isinstance(r, dict) else None) or "no check registered"
            s.append(wrap(f"**Not claimed.** {reason}") + "\n")
            if pid in notes:
                s.append(notes[pid] + "\n")
            continue
        M = m.META
        s.append(wrap(f"**Assurance.** {M['text']}") + "\n")
        s.append(wrap(f"**Technique.** {M['technique']}") + "\n")
        s.append(wrap(f"**Trusted / modelled rather than verified.** {M['note']}") + "\n")
        th = getattr(m, "THEOREMS", [])
        s.append(wrap(f"**Audited theorems ({len(th)}).** " + ", ".join(f"`{t}`" for t in th)) + "\n")
        if pid in notes:
            s.append(notes[pid] + "\n")
    return "\n".join(s) + "\n---------------------------------------------------------------------------------------------\n\n"


def sec6_tables():
    d = json.load(open(os.path.join(ROOT, "known_findings.json")))["findings"]
    fixed = [e for e in d if e["status"] == "fixed"]
    opn = [e for e in d if e["status"] == "open"]
    s = ["### 6.1 Repaired: \"fix:\" commits in /repo\n",
         "Each is one minimal unguarded commit; the 1887 baseline tests pass with it; the entry in `known_findings.json` is "
         "`fixed: property=<id> <commit> <what failed>` and suppresses nothing (the witness runs as a regression case on every "
         "run of the check).\n",
         "| property | commit | what failed (witness) |", "|---|---|---|"]
    for e in sorted(fixed, key=lambda e: e["property"]):
        txt = e.get("fixed", "")
        mm = re.match(r"fixed: property=(\S+) (\S+) (.*)", txt, re.S)
        sha, what = (mm.group(2), mm.group(3)) if mm else ("?", txt)
        s.append(f"| {e['property']} | `{sha}` | {' '.join(what.split()).replace('|', '¦')} |")
    s += ["", "### 6.2 Recorded: open known findings\n",
          "Genuine violations of the stated property on the unchanged tree whose repair is not small and safe (a behaviour "
          "change users may rely on, a design-level issue, or several plausible repairs). Each is identified by a signature "
          "and an exact witness; the check replays the witness, prints `KNOWN-FINDING: property=<id> <signature>: …` and exits "
          "0; generators stay out of the signature's region, so any other violation of the same property still alarms.\n",
          "| property | signature | what fails |", "|---|---|---|"]
    for e in sorted(opn, key=lambda e: (e["property"], e["signature"])):
        s.append(f"| {e['property']} | `{e['signature']}` | {' '.join(str(e.get('what', '')).split()).replace('|', '¦')[:700]} |")
    return "\n".join(s) + "\n"


def sec8_table():
    rows = []
    for dname in sorted(glob.glob(os.path.join(ROOT, "seeded", "C*"))):
        try:
            m = json.load(open(os.path.join(dname, "meta.json")))
        except Exception:  # noqa
            continue
        v = m.get("verified_by_lead", {})
        others = m.get("also_caught_by", [])
        if v.get("caught"):
            how = "caught: no-failing-input-found" if v.get("only_broken_obligation") else "caught: failing input"
        else:
            how = "MISSED by its own check"
        if others:
            how += f" (also caught by {', '.join(others)})"
        summ = " ".join(str(m.get("summary", "")).split()).replace("|", "¦")
        rows.append(f"| {os.path.basename(dname)} | {summ[:330]}{'…' if len(summ) > 330 else ''} | {how} |")
    return "\n".join(["| seeded change | what it does | result of `./check <property> --tier quick` |", "|---|---|---|"] + rows) + "\n"


def main():
    out = [part("00_head.md"), part("20_mechanisms.md"), part("30_architecture.md"), sec5(),
           part("60_findings_head.md"), sec6_tables(), part("63_false_alarms.md"), part("70_trusted_base.md"),
           part("80_seeded_head.md"), sec8_table(), part("85_seeded_notes.md"), part("90_limits.md")]
    open(os.path.join(ROOT, "DESIGN.md"), "w").write("\n".join(out))
    print("DESIGN.md written:", sum(x.count("\n") for x in out), "lines")


if __name__ == "__main__":
    main()
