#!/venv/bin/python
"""tools/merge_branch.py <branch>: merge a builder branch; the three shared registry files are merged as unions."""
import json, re, subprocess, sys
br = sys.argv[1]
def sh(*a, check=True):
    return subprocess.run(a, capture_output=True, text=True, check=check)
def show(ref, f):
    r = sh("git", "show", f"{ref}:{f}", check=False)
    return r.stdout if r.returncode == 0 else ""
base = sh("git", "merge-base", "HEAD", br).stdout.strip()
r = sh("git", "merge", "--no-commit", "--no-ff", br, check=False)
print(r.stdout[-400:], r.stderr[-300:])
# Main.lean: union of handlers
def handlers(txt):
    m = re.search(r"\[\s*(Driver\.[^\]]*)\]", txt)
    return [h.strip() for h in m.group(1).split(",")] if m else []
ours, theirs = show("HEAD", "lean/Main.lean"), show(br, "lean/Main.lean")
hs = handlers(ours)
for h in handlers(theirs):
    if h not in hs:
        hs.append(h)
new = re.sub(r"\[\s*Driver\.[^\]]*\]", "[ " + ",\n    ".join(hs) + " ]", ours, count=1)
open("lean/Main.lean", "w").write(new)
# PPModel.lean: union of imports
o, t = show("HEAD", "lean/PPModel.lean").splitlines(), show(br, "lean/PPModel.lean").splitlines()
for l in t:
    if l.strip() and l not in o:
        o.append(l)
open("lean/PPModel.lean", "w").write("\n".join(o) + "\n")
# known_findings.json: union by (property, signature)
ko, kt = json.loads(show("HEAD", "known_findings.json")), json.loads(show(br, "known_findings.json") or '{"findings":[]}')
# entries of the properties the branch owns (b-c10 owns C10 and C11, ...) are taken from the branch
owned = {"b-c10": ["C10", "C11"]}.get(br, ["C" + br.split("-c")[-1]])
keep = [e for e in ko["findings"] if e["property"] not in owned or (e["property"], e["signature"]) not in
        {(x["property"], x["signature"]) for x in kt["findings"]} and e.get("status") == "fixed"]
keys = {(e["property"], e["signature"]) for e in keep}
ko["findings"] = keep + [e for e in kt["findings"] if (e["property"], e["signature"]) not in keys and
                         (e["property"] in owned or (e["property"], e["signature"]) not in keys)]
json.dump(ko, open("known_findings.json", "w"), indent=1)
open("known_findings.json", "a").write("\n")
sh("git", "add", "lean/Main.lean", "lean/PPModel.lean", "known_findings.json")
left = sh("git", "diff", "--name-only", "--diff-filter=U").stdout.strip()
print("unresolved:", left or "none")
