#!/venv/bin/python
"""tools/suite.py <repo-dir> : run the pinned baseline suite in <repo-dir> and compare the set of
passing tests with /root/.vp/BASELINE.json (stable_pass).  exit 0 iff every baseline test still passes."""
import ast, json, os, subprocess, sys, tempfile
import xml.etree.ElementTree as ET

repo = os.path.abspath(sys.argv[1] if len(sys.argv) > 1 else "/repo")
base = json.load(open("/root/.vp/BASELINE.json"))
stable = base["stable_pass"]
if isinstance(stable, str):
    stable = ast.literal_eval(stable)
stable = set(stable)
with tempfile.NamedTemporaryFile(suffix=".xml", delete=False) as f:
    xml = f.name
env = dict(os.environ)
env.pop("PYPARSING_VERIF", None)
env["PYTHONPATH"] = repo
p = subprocess.run(["/venv/bin/python", "-m", "pytest", "-q", "-p", "no:cacheprovider", "--timeout=900",
                    "--continue-on-collection-errors", f"--junitxml={xml}", "-n", os.environ.get("SUITE_N", "0")]
                   if os.environ.get("SUITE_N") else
                   ["/venv/bin/python", "-m", "pytest", "-q", "-p", "no:cacheprovider", "--timeout=900",
                    "--continue-on-collection-errors", f"--junitxml={xml}"],
                   cwd=repo, env=env, capture_output=True, text=True)
passed = set()
for tc in ET.parse(xml).getroot().iter("testcase"):
    if not any(ch.tag in ("failure", "error", "skipped") for ch in tc):
        passed.add(f"{tc.get('classname')}::{tc.get('name')}")
os.unlink(xml)
missing = sorted(stable - passed)
print(p.stdout.strip().splitlines()[-1] if p.stdout.strip() else p.stderr[-300:])
print(f"baseline={len(stable)} passed_now={len(passed)} baseline_tests_not_passing={len(missing)}")
for m in missing[:20]:
    print("  MISSING", m)
sys.exit(1 if missing else 0)
