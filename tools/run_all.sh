#!/bin/bash
# tools/run_all.sh <tier> [parallel]  — runs every registered check once on /repo; prints exit codes and last lines
cd /verif
tier=${1:-quick}; par=${2:-2}
ls harness/props/ | grep -o "^c[0-9][0-9]" | sort -u | tr 'c' 'C' | xargs -P $par -I{} sh -c "./check {} --tier $tier > /tmp/all_${tier}_{}.log 2>&1; echo \"{} exit=\$? \$(grep -c '^VIOLATION' /tmp/all_${tier}_{}.log) \$(tail -1 /tmp/all_${tier}_{}.log | cut -c1-160)\""
