#!/bin/bash
# tools/seed_batch.sh <srcprefix> <id>...   e.g. tools/seed_batch.sh /tmp/seed3-c 02 05 : evaluates <srcprefix><id>/seeded/{1,2}
# against ./check C<id>, filing each confirmed change under the next free seeded/C<id>-<n>
cd /verif
pre=$1; shift
for id in "$@"; do
  for k in 1 2; do
    src=$pre$id/seeded/$k
    [ -f $src/patch.diff ] || continue
    n=1; while [ -d seeded/C$id-$n ]; do n=$((n+1)); done
    /venv/bin/python tools/seed_eval.py C$id $src $n > /tmp/sweep_C$id-$n.log 2>&1
    echo "C$id-$n $(grep -o '"confirmed": [a-z]*' /tmp/sweep_C$id-$n.log) $(grep -o '"caught": [a-z]*' /tmp/sweep_C$id-$n.log) nfi=$(grep -c no-failing-input-found /tmp/sweep_C$id-$n.log)"
  done
done
