#!/venv/bin/python
"""selftest/C05_mutants.py [ids...] : apply each edit (exact string replacement) to a scratch worktree of /repo, run pyparsing's
baseline suite and `./check C05 --tier quick` against it, print exit code, VIOLATION lines and the shrunk replay."""
import json, os, subprocess, sys
from pathlib import Path

HERE = Path(__file__).resolve().parent.parent
WT = "/tmp/rw-c05-st"
R, C = "pyparsing/results.py", "pyparsing/core.py"
EDITS = {
    # ---- property-breaking -------------------------------------------------------------------------------------
    "B1": (R, "            return self._tokdict[i][-1][0]\n", "            return self._tokdict[i][0][0]\n",
           "__getitem__ returns the FIRST value of an ordinary name"),
    "B2": (R, "        self._toklist += other._toklist\n        self._all_names |= other._all_names\n        return self\n",
           "        self._toklist += other._toklist\n        return self\n", "__iadd__ forgets `_all_names |= other._all_names`"),
    "B3": (R, "            self[name] = toklist[0]\n        except (KeyError, TypeError, IndexError):",
           "            self[name] = toklist[-1]\n        except (KeyError, TypeError, IndexError):", "__init__ binds toklist[-1]"),
    "B4": (C, "                    tokens = ParseResults([default_value])\n                    tokens[self_expr.resultsName] = default_value\n",
           "                    tokens = ParseResults([default_value])\n", "Opt default no longer bound to the inner name"),
    "B5": (C, "                            asList=self.saveAsList\n                            and isinstance(tokens, (ParseResults, list)),\n                            modal=self.modalResults,\n                        )\n        if debugging:",
           "                            asList=self.saveAsList\n                            and isinstance(tokens, (ParseResults, list)),\n                        )\n        if debugging:",
           "re-wrap after a token-replacing action loses `modal` (name* forgotten)"),
    "B6": (R, "            if isinstance(other, ParseResults):\n                self._all_names |= other._all_names\n            return self\n",
           "            return self\n", "__iadd__ early return (`if not other`) drops the list-all names of an empty result"),
    "B7": (R, "                self[name] = _ParseResultsWithOffset(ParseResults(toklist._toklist), 0)\n",
           "                self[name] = _ParseResultsWithOffset(toklist.copy(), 0)\n",
           "asList value keeps the names of its own level (copy() instead of a fresh list result)"),
    "B8": (R, "        if key in self:\n            return self[key]\n        else:\n            return default_value\n",
           "        if key in self:\n            return self._tokdict[key][0][0]\n        else:\n            return default_value\n",
           "get() returns the first value (lookup forms disagree)"),
    "B9": (R, "                return obj.as_dict() if obj.haskeys() else [to_item(v) for v in obj]\n",
           "                return [to_item(v) for v in obj]\n", "as_dict() flattens nested results with names into lists"),
    "B10": (R, "            items = sorted((str(k), v) for k, v in self.items())\n",
            "            items = sorted((str(k), self._tokdict[k][0][0]) for k in self.keys())\n", "dump() shows the first value of every name"),
    "B11": (R, "            addoffset = lambda a: offset if a < 0 else a + offset\n", "            addoffset = lambda a: a\n",
            "__iadd__ forgets addoffset (positions only: not observable through the lookups of C05)"),
    "B12": (C, "        ret_tokens = ParseResults(\n            tokens, self.resultsName, asList=self.saveAsList, modal=self.modalResults\n        )\n        if self.parseAction and (do_actions or self.callDuringTry):",
            "        ret_tokens = ParseResults(\n            tokens, self.resultsName, asList=self.saveAsList\n        )\n        if self.parseAction and (do_actions or self.callDuringTry):",
            "first wrap ignores modalResults (name* never list-all)"),
    "B13": (C, "    def postParse(self, instring, loc, tokenlist):\n        if self._asPythonList:",
            "    def postParse(self, instring, loc, tokenlist):\n        tokenlist = ParseResults(tokenlist._toklist)\n        if self._asPythonList:",
            "Group drops the names declared inside it"),
    # ---- harmless --------------------------------------------------------------------------------------------------
    "H1": (R, "            return self._tokdict[i][-1][0]\n", "            occ = self._tokdict[i]\n            return occ[len(occ) - 1][0]\n",
           "__getitem__: local + explicit last index"),
    "H2": (R, "        self._toklist += other._toklist\n        self._all_names |= other._all_names\n        return self\n",
           "        self._all_names |= other._all_names\n        self._toklist += other._toklist\n        return self\n",
           "__iadd__: two independent statements reordered"),
    "H3": (C, "            if default_value is not self.__optionalNotMatched:\n                if self_expr.resultsName:\n                    tokens = ParseResults([default_value])\n                    tokens[self_expr.resultsName] = default_value\n                else:\n                    tokens = [default_value]  # type: ignore[assignment]\n            else:\n                tokens = []  # type: ignore[assignment]\n",
           "            if default_value is self.__optionalNotMatched:\n                tokens = []  # type: ignore[assignment]\n            elif not self_expr.resultsName:\n                tokens = [default_value]  # type: ignore[assignment]\n            else:\n                tokens = ParseResults([default_value])\n                tokens[self_expr.resultsName] = default_value\n",
           "Opt.parseImpl: branches reordered"),
    "H4": (R, "        if toklist in self._null_values:\n            return\n", "        if toklist is None or toklist == [] or toklist == ():\n            return\n",
           "__init__: null-value test spelled out"),
    "H5": (R, "            otherdictitems = [\n                (k, _ParseResultsWithOffset(v[0], addoffset(v[1])))\n                for k, vlist in otheritems\n                for v in vlist\n            ]\n            for k, v in otherdictitems:\n                self[k] = v\n",
           "            for name_, occurrences in list(otheritems):\n                for occ in list(occurrences):\n                    v = _ParseResultsWithOffset(occ[0], addoffset(occ[1]))\n                    k = name_\n                    self[k] = v\n",
           "__iadd__: comprehension unrolled into loops (locals renamed)"),
}


def sh(*a, **kw):
    return subprocess.run(a, capture_output=True, text=True, **kw)


def main():
    ids = sys.argv[1:] or list(EDITS)
    sh("git", "-C", "/repo", "worktree", "remove", "--force", WT)
    r = sh("git", "-C", "/repo", "worktree", "add", "--detach", "-q", WT, "HEAD")
    assert r.returncode == 0, r.stderr
    try:
        for i in ids:
            f, old, new, what = EDITS[i]
            p = Path(WT) / f
            src = p.read_text()
            assert src.count(old) == 1, (i, src.count(old))
            p.write_text(src.replace(old, new))
            suite = sh("/verif/tools/suite.py", WT, env=dict(os.environ, SUITE_N="8"))
            sline = [l for l in suite.stdout.splitlines() if l.startswith("baseline=")]
            chk = sh(str(HERE / "check"), "C05", "--tier", "quick", env=dict(os.environ, VERIF_REPO=WT), cwd=str(HERE))
            print(f"== {i}: {what}\n   suite: {sline[0] if sline else suite.stdout[-200:]}\n   check: exit={chk.returncode}")
            for l in chk.stdout.splitlines():
                if l.startswith(("VIOLATION", "KNOWN", "[C05]")):
                    print("     ", l)
                    if l.startswith("VIOLATION"):
                        rp = l.split("replay=")[1].split()[0]
                        d = json.loads((HERE / rp).read_text())
                        if d.get("replay_kind") == "failing-input":
                            c = d["case"]
                            print("        kind:", d["kind"])
                            print("        case:", json.dumps(c)[:700])
                            print("        expected:", json.dumps(d["expected"])[:300])
                            print("        actual:  ", json.dumps(d["actual"])[:300])
                            rr = sh(str(HERE / "check"), "C05", "--replay", str(HERE / rp), env=dict(os.environ, VERIF_REPO=WT), cwd=str(HERE))
                            print("        replay on the edited tree: exit", rr.returncode, "| on /repo:",
                                  sh(str(HERE / "check"), "C05", "--replay", str(HERE / rp), cwd=str(HERE)).returncode)
            if chk.returncode == 2:
                print(chk.stderr[-800:])
            sys.stdout.flush()
            sh("git", "-C", WT, "checkout", "--", ".")
    finally:
        sh("git", "-C", "/repo", "worktree", "remove", "--force", WT)


main()
