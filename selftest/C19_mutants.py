"""apply one mutant to /tmp/rw-c19, run suite + check, print a summary row; then restore"""
import json, subprocess, sys, glob, os, shutil

RW = "/tmp/rw-c19"
VW = "/tmp/vw-c19"

T = "pyparsing/testing.py"
C = "pyparsing/core.py"

MUTANTS = {
    # ---- breaking
    "B1_revert_F3_fix": ("git-revert", None),
    "B2_restore_skips_verbose_stacktrace": (T, [(
        '            ParserElement.verbose_stacktrace = self._save_context["verbose_stacktrace"]\n', '')]),
    "B3_enable_packrat_no_early_return": (C, [(
        '            if ParserElement._packratEnabled:\n                return\n\n            ParserElement._packratEnabled = True',
        '            ParserElement._packratEnabled = True')]),
    "B4_enable_lr_does_not_refuse_under_packrat": (C, [(
        '            elif ParserElement._packratEnabled:\n                raise RuntimeError("Packrat and Bounded Recursion are not compatible")\n            if cache_size_limit is None:\n                ParserElement.recursion_memos = _UnboundedMemo()',
        '            if cache_size_limit is None:\n                ParserElement.recursion_memos = _UnboundedMemo()')]),
    "B5_set_default_ws_updates_all_builtins": (C, [(
        '        for expr in _builtin_exprs:\n            if expr.copyDefaultWhiteChars:\n                expr.whiteChars = set(chars)',
        '        for expr in _builtin_exprs:\n            expr.whiteChars = set(chars)')]),
    "B6_copy_never_rereads_default": (C, [(
        '        if self.copyDefaultWhiteChars:\n            cpy.whiteChars = set(ParserElement.DEFAULT_WHITE_CHARS)\n        return cpy',
        '        return cpy')]),
    "B7_restore_diag_only_reenables": (T, [(
        '                (__diag__.enable if value else __diag__.disable)(name)',
        '                if value:\n                    __diag__.enable(name)')]),
    "B8_save_packrat_size_constant": (T, [(
        '                self._save_context["packrat_cache_size"] = (\n                    ParserElement.packrat_cache.size\n                )',
        '                self._save_context["packrat_cache_size"] = 128')]),
    "B9_disable_memoization_keeps_parse": (C, [(
        '            ParserElement._packratEnabled = False\n            ParserElement._parse = ParserElement._parseNoCache',
        '            ParserElement._packratEnabled = False')]),
    "B10_restore_skips_keyword_chars": (T, [(
        '            Keyword.DEFAULT_KEYWORD_CHARS = self._save_context["default_keyword_chars"]\n', '')]),
    "B11_force_lr_keeps_packrat_flag": (C, [(
        '            ParserElement.reset_cache()\n            ParserElement._left_recursion_enabled = False\n            ParserElement._packratEnabled = False',
        '            ParserElement.reset_cache()\n            ParserElement._left_recursion_enabled = False')]),
    "B12_new_diag_flag_is_fixed": (C, [(
        '    _all_names = [__ for __ in locals() if not __.startswith("_")]\n    _warning_names',
        '    _all_names = [__ for __ in locals() if not __.startswith("_")]\n    _fixed_names = ["enable_debug_on_named_expressions"]\n    _warning_names')]),
    # ---- harmless
    "H1_restore_rename_local_and_ifelse": (T, [(
        '            for name, value in self._save_context["__diag__"].items():\n                (__diag__.enable if value else __diag__.disable)(name)',
        '            for diag_name, was_on in self._save_context["__diag__"].items():\n                if was_on:\n                    __diag__.enable(diag_name)\n                else:\n                    __diag__.disable(diag_name)')]),
    "H2_save_reordered": (T, [(
        '            self._save_context["default_whitespace"] = ParserElement.DEFAULT_WHITE_CHARS\n            self._save_context["default_keyword_chars"] = Keyword.DEFAULT_KEYWORD_CHARS\n',
        '            self._save_context["default_keyword_chars"] = Keyword.DEFAULT_KEYWORD_CHARS\n            self._save_context["default_whitespace"] = ParserElement.DEFAULT_WHITE_CHARS\n')]),
    "H3_enable_packrat_equivalent_rewrite": (C, [(
        '            ParserElement._packratEnabled = True\n            if cache_size_limit is None:\n                ParserElement.packrat_cache = _UnboundedCache()\n            else:\n                ParserElement.packrat_cache = _FifoCache(cache_size_limit)\n            ParserElement._parse = ParserElement._parseCache',
        '            new_cache = _UnboundedCache() if cache_size_limit is None else _FifoCache(cache_size_limit)\n            ParserElement._parse = ParserElement._parseCache\n            ParserElement.packrat_cache = new_cache\n            ParserElement._packratEnabled = True')]),
    "B13_restore_unconditional_set_default_ws": (T, [(
        '            if (\n                ParserElement.DEFAULT_WHITE_CHARS\n                != self._save_context["default_whitespace"]\n            ):\n                ParserElement.set_default_whitespace_chars(\n                    self._save_context["default_whitespace"]\n                )',
        '            ParserElement.set_default_whitespace_chars(\n                self._save_context["default_whitespace"]\n            )')]),
    "H6_enable_lr_equivalent_rewrite": (C, [(
        '            if cache_size_limit is None:\n                ParserElement.recursion_memos = _UnboundedMemo()\n            elif cache_size_limit > 0:\n                ParserElement.recursion_memos = _LRUMemo(capacity=cache_size_limit)  # type: ignore[assignment]\n            else:\n                raise NotImplementedError(f"Memo size of {cache_size_limit}")',
        '            if cache_size_limit is not None and cache_size_limit <= 0:\n                raise NotImplementedError(f"Memo size of {cache_size_limit}")\n            memo = _UnboundedMemo() if cache_size_limit is None else _LRUMemo(capacity=cache_size_limit)\n            ParserElement.recursion_memos = memo')]),
    "H5_set_default_ws_comprehension": (C, [(
        '        for expr in _builtin_exprs:\n            if expr.copyDefaultWhiteChars:\n                expr.whiteChars = set(chars)',
        '        followers = [e for e in _builtin_exprs if e.copyDefaultWhiteChars]\n        for follower in followers:\n            follower.whiteChars = set(chars)')]),
}


def sh(cmd, **kw):
    return subprocess.run(cmd, shell=True, capture_output=True, text=True, **kw)


def main(names):
    for name in names:
        f, edits = MUTANTS[name]
        sh(f"git -C {RW} checkout .")
        if f == "git-revert":
            r = sh(f"cd {RW} && git show 91f3651 -- pyparsing/testing.py | git apply -R")
            assert r.returncode == 0, r.stderr
        else:
            p = os.path.join(RW, f)
            s = open(p).read()
            for old, new in edits:
                assert s.count(old) == 1, (name, s.count(old), old)
                s = s.replace(old, new)
            open(p, "w").write(s)
        suite = sh(f"SUITE_N=8 /verif/tools/suite.py {RW}")
        suite_line = suite.stdout.strip().splitlines()[-1] if suite.stdout.strip() else suite.stderr[-200:]
        if suite.returncode != 0:
            suite_line = "SUITE-FAILS " + " | ".join(suite.stdout.strip().splitlines()[-4:])
        shutil.rmtree(f"{VW}/replays", ignore_errors=True)
        chk = sh(f"cd {VW} && VERIF_REPO={RW} ./check C19 --tier quick")
        lines = [l for l in chk.stdout.splitlines() if l.startswith("VIOLATION") or l.startswith("[C19]")]
        print(f"== {name}: suite: {suite_line}")
        print(f"   check exit={chk.returncode}")
        for l in lines:
            print("   " + l[:220])
        for rp in sorted(glob.glob(f"{VW}/replays/*.json")):
            d = json.load(open(rp))
            if d.get("replay_kind") == "failing-input":
                print(f"   replay {os.path.basename(rp)}: {d['kind']} case={json.dumps(d['case'])} expected={json.dumps(d['expected'], default=str)[:120]} actual={json.dumps(d['actual'], default=str)[:120]}")
            else:
                b = d.get("broken", [])
                print(f"   replay {os.path.basename(rp)}: broken-obligation kinds={[x.get('kind') for x in b]} " + json.dumps(b[0], default=str)[:300])
        if chk.returncode == 2:
            print("   STDERR " + chk.stderr[-600:])
        sys.stdout.flush()
    sh(f"git -C {RW} checkout .")
    # rebuild generated facts / lean against the real repo again
    sh(f"cd {VW} && ./check C19 --tier quick")


if __name__ == "__main__":
    main(sys.argv[1:] or list(MUTANTS))
