#!/venv/bin/python
"""mutation self-test driver for C18: apply one edit to /tmp/rw-c18, run suite + check, reset"""
import subprocess, sys, json, os, glob, time

RW = "/tmp/rw-c18"
VW = "/tmp/vw-c18"

MUTS = {
    # name: (file, old, new, kind)
    "M1_real_needs_fraction_digits": ("pyparsing/common.py", r'Regex(r"[+-]?(?:\d+\.\d*|\.\d+)")', r'Regex(r"[+-]?(?:\d+\.\d+|\.\d+)")', "break"),
    "M2_ipv4_256": ("pyparsing/common.py", r'r"(25[0-5]|2[0-4][0-9]|1?[0-9]{1,2})(\.(25[0-5]|2[0-4][0-9]|1?[0-9]{1,2})){3}"',
                    r'r"(25[0-6]|2[0-4][0-9]|1?[0-9]{1,2})(\.(25[0-6]|2[0-4][0-9]|1?[0-9]{1,2})){3}"', "break"),
    "M3_sci_real_exponent_sign": ("pyparsing/common.py", r'Regex(r"[+-]?(?:\d+(?:[eE][+-]?\d+)|(?:\d+\.\d*|\.\d+)(?:[eE][+-]?\d+)?)")',
                                  r'Regex(r"[+-]?(?:\d+(?:[eE][+-]?\d+)|(?:\d+\.\d*|\.\d+)(?:[eE]-?\d+)?)")', "break"),
    "M4_quoted_escquote_replaced_by_open_quote": ("pyparsing/core.py", "ret = ret.replace(self.esc_quote, self.end_quote_char)",
                                                 "ret = ret.replace(self.esc_quote, self.quote_char)", "break"),
    "M5_quoted_multichar_end_prefixes": ("pyparsing/core.py", "for i in range(len(self.end_quote_char) - 1, 0, -1)",
                                         "for i in range(len(self.end_quote_char) - 1, 1, -1)", "break"),
    "M6_delimited_max_off_by_one": ("pyparsing/core.py", "None if self.max is None else self.max - 1,", "None if self.max is None else self.max,", "break"),
    "M7_counted_array_at_most": ("pyparsing/helpers.py", "array_expr <<= (expr * n) if n else Empty()", "array_expr <<= (expr * (1, n)) if n else Empty()", "break"),
    "M8_nested_content_swallows_closer": ("pyparsing/helpers.py", """                    content = Combine(
                        OneOrMore(
                            ~Literal(opener)
                            + ~Literal(closer)
                            + CharsNotIn(ParserElement.DEFAULT_WHITE_CHARS, exact=1)""", """                    content = Combine(
                        OneOrMore(
                            ~Literal(opener)
                            + ~Literal(closer[0] * 2)
                            + CharsNotIn(ParserElement.DEFAULT_WHITE_CHARS, exact=1)""", "break"),
    "M9_mac_mixed_delims": ("pyparsing/common.py", r'(?:\1[0-9a-fA-F]{2}){4}', r'(?:[:.-][0-9a-fA-F]{2}){4}', "break"),
    "M10_iso_date_one_digit_day": ("pyparsing/common.py", r'(?:-(?P<day>\d\d))?)?"', r'(?:-(?P<day>\d\d?))?)?"', "break"),
    "M11_convert_octal_escape": ("pyparsing/core.py", "return chr(int(s, base=8))", "return chr(int(s, base=10))", "break"),
    "M12_remove_quotes_strip": ("pyparsing/actions.py", "return t[0][1:-1]", "return t[0].strip(t[0][0])", "break"),
    "M13_hex_integer_base": ("pyparsing/common.py", 'Word(hexnums).set_name("hex integer").set_parse_action(token_map(int, 16))',
                             'Word(hexnums).set_name("hex integer").set_parse_action(token_map(lambda s: int(s, 16) if len(s) < 9 else int(s[-8:], 16)))', "break"),
    "M14_ipv6_condition": ("pyparsing/common.py", "lambda t: sum(1 for tt in t if pyparsing_common._ipv6_part.matches(tt)) < 8",
                           "lambda t: sum(1 for tt in t if pyparsing_common._ipv6_part.matches(tt)) < 9", "break"),
    "M15_ieee_float_infinity": ("pyparsing/common.py", r"nan|inf(?:inity)?))", r"nan|inf(?:init[ey])?))", "break"),
    # harmless refactors
    "H1_rename_local_in_QuotedString": ("pyparsing/core.py", None, None, "harmless"),
    "H2_word_nums_literal": ("pyparsing/common.py", 'integer = Word(nums).set_name("integer")', 'integer = Word("0123456789").set_name("integer")', "harmless"),
    "H3_delimited_reorder": ("pyparsing/core.py", """        self.min = min or 1
        self.max = max
        self.allow_trailing_delim = allow_trailing_delim
""", """        self.allow_trailing_delim = allow_trailing_delim
        self.max = max
        self.min = 1 if not min else min
""", "harmless"),
    "H4_counted_equivalent": ("pyparsing/helpers.py", "array_expr <<= (expr * n) if n else Empty()", "array_expr <<= Empty() if n == 0 else And([expr] * n) if n > 1 else expr * 1", "harmless"),
}


def sh(cmd, **kw):
    return subprocess.run(cmd, shell=True, capture_output=True, text=True, **kw)


def apply(name):
    f, old, new, kind = MUTS[name]
    p = os.path.join(RW, f)
    s = open(p).read()
    if name == "H1_rename_local_in_QuotedString":
        a = s.index("class QuotedString(Token):")
        b = s.index("class CharsNotIn(Token):")
        seg = s[a:b]
        i = seg.index("    def parseImpl(self, instring, loc, do_actions=True)")
        body = seg[i:]
        body = body.replace("ret = ", "unq = ").replace("(ret)", "(unq)").replace("ret[", "unq[").replace("return loc, ret", "return loc, unq").replace("isinstance(ret,", "isinstance(unq,").replace(" ret.replace", " unq.replace")
        s = s[:a] + seg[:i] + body + s[b:]
    else:
        assert s.count(old) >= 1, f"{name}: pattern not found"
        s = s.replace(old, new)
    open(p, "w").write(s)


def main():
    names = sys.argv[1:] or list(MUTS)
    rows = []
    for name in names:
        sh(f"git -C {RW} checkout -q -- .")
        apply(name)
        diff = sh(f"git -C {RW} diff --stat").stdout.strip().splitlines()[-1:]
        t0 = time.time()
        suite = sh(f"SUITE_N=8 /verif/tools/suite.py {RW}")
        suite_ok = suite.returncode == 0
        suite_line = [l for l in suite.stdout.splitlines() if l.startswith("baseline=")]
        sh(f"rm -rf {VW}/replays")
        chk = sh(f"VERIF_REPO={RW} ./check C18 --tier quick", cwd=VW)
        out = chk.stdout.strip().splitlines()
        viol = [l for l in out if l.startswith("VIOLATION")]
        rep = None
        for v in viol:
            if "no-failing-input-found" in v:
                continue
            path = v.split("replay=")[1].split()[0]
            d = json.load(open(os.path.join(VW, path)))
            rep = {"case": d.get("case"), "expected": d.get("expected"), "actual": d.get("actual")}
            break
        rows.append((name, MUTS[name][3], suite_ok, suite_line, chk.returncode, len(viol), rep, out[-1] if out else chk.stderr[-300:]))
        print(json.dumps({"name": name, "kind": MUTS[name][3], "suite_ok": suite_ok, "suite": suite_line, "exit": chk.returncode,
                          "violations": viol, "replay": rep, "last": out[-1] if out else chk.stderr[-300:],
                          "secs": round(time.time() - t0)}), flush=True)
        # replay check
        if rep is not None:
            path = [v for v in viol if "no-failing" not in v][0].split("replay=")[1].split()[0]
            r1 = sh(f"VERIF_REPO={RW} ./check C18 --replay {path}", cwd=VW)
            r2 = sh(f"./check C18 --replay {path}", cwd=VW)
            print(json.dumps({"name": name, "replay_on_mutant_exit": r1.returncode, "replay_on_clean_exit": r2.returncode}), flush=True)
    sh(f"git -C {RW} checkout -q -- .")


main()
