import sys, random, json
sys.path.insert(0, '/tmp/vw-c05')
from harness import common, gram, gen, corr_parse
from harness.sexp import Sym, dumps
pp = common.import_pyparsing()

def canon_item(v):
    if isinstance(v, pp.ParseResults):
        return view(v)
    return gram.canon_tok(v)
def view(r):
    items = [canon_item(x) for x in list(r)]
    names = []
    for k in sorted(r.keys()):
        names.append([k, canon_item(r[k])])
    return [Sym("view"), items, names]
def canon_dict(d):
    if isinstance(d, dict):
        return [Sym("dict")] + [[k, canon_dict(v)] for k, v in sorted(d.items())]
    if isinstance(d, list):
        return [Sym("list")] + [canon_dict(v) for v in d]
    return gram.canon_tok(d)
def real(root, s):
    try:
        r = root.parse_string(s)
    except pp.ParseBaseException as ex:
        return dumps(gram.exc_canon(pp, ex))
    except RecursionError:
        return "rec"
    return dumps([Sym("ok"), view(r), canon_dict(r.as_dict())])

CFG = dict(dl_combine=False, names=0.5, actions=0.15, ws_variants=0.0, ignore=0.0, set_name=0.0, errorstop=0.05, failing_actions=False, fatal_actions=False,
           comp_kinds=[("+", 8), ("|", 6), ("^", 4), ("And3", 2), ("MatchFirst3", 2), ("Or3", 2), ("Opt", 5), ("OptD", 3),
                       ("ZeroOrMore", 4), ("OneOrMore", 4), ("ManyStop", 1), ("[]", 2), ("*", 1), ("~", 1),
                       ("Group", 6), ("Suppress", 3), ("DelimitedList", 3), ("Located", 2), ("copy", 1), ("fwdref", 3)])
drv = common.Driver()
N = int(sys.argv[1]) if len(sys.argv) > 1 else 300
lines, reals, cases = [], [], []
skips = {}
for i in range(N):
    rng = random.Random(f"proto-{i}")
    prog, rootv, inputs = gen.gen_case(rng, gen.Cfg(**CFG), 6)
    try:
        b = gram.build(pp, prog); root = gram.prepare(b, rootv)
        if corr_parse.nullable_rep(pp, root): skips['nullable']=skips.get('nullable',0)+1; continue
        nodes, ri = gram.extract(b, root)
    except gram.Unsupported as ex:
        skips[str(ex)] = skips.get(str(ex),0)+1; continue
    except Exception as ex:
        skips[type(ex).__name__] = skips.get(type(ex).__name__,0)+1; continue
    for s in inputs:
        try:
            o = common.with_alarm(2, real, root, s)
        except common.CaseTimeout:
            continue
        line = dumps([Sym("ppnames"), [Sym("none")], Sym("parse"), 1500, ri, pp.ParserElement.DEFAULT_WHITE_CHARS, s, False, [], nodes])[1:-1]
        lines.append(line); reals.append(o); cases.append((prog, rootv, s))
outs = drv.run(lines)
nd = 0; oks = 0; named = 0
for (c, m, r) in zip(cases, outs, reals):
    oks += r.startswith("(ok")
    named += r.startswith("(ok") and '(dict)' not in r
    if m != r:
        nd += 1
        if nd <= int(sys.argv[2]) if len(sys.argv) > 2 else 5:
            print("DIFF", json.dumps(c[0]), c[1], repr(c[2])); print("  real ", r); print("  model", m)
print("cases", len(cases), "ok", oks, "named", named, "diffs", nd, "skips", skips)
